(* Model of transport/reconnect/transport.go (Dial, writeReqRes/Write, writeLoop, readLoop,
   pingLoop, reconnect, Read, CloseWithStatus) as it is after the fix: commits for F8 (the write
   loop cancels the transport when its redial budget is exhausted) and F33 (so does the read
   loop, after it has pushed the reconnect error).  Executable; no proofs here.

   The underlying transports are scripted incarnations: an incarnation accepts a write iff its
   Write returns nil, keeps what it accepted in order, and accepts nothing once closed or once
   its capacity is used up (the transport_fifo assumption made concrete).  The dialer is a
   script of outcomes consumed one per attempt; when the script runs out every further attempt
   fails - with a dial error, or (rc_tailhs) with a connection whose handshake read fails.

   Granularity: one event is run to quiescence (the harness sequences events the same way: it
   holds back the close error of a parked underlying Read until the event's other effects are
   over, so a write-side redial is never raced by the read loop); the mutex r.mu serialises
   reconnect rounds, so rounds are atomic here.  Three overlapped schedules are events of their
   own or are linearised by the harness: a Close while a write is in flight in the underlying
   Write with more writes queued behind it (BatchClose), a read failure while a write is in
   flight (harness: ReadFail then Batch), a Read that is pending while something else happens
   (ReadStart ... ReadJoin).
   A fourth one, a read failure while a write that the connection has ALREADY ACCEPTED has not
   returned yet (accept -> read failure -> redial completes -> Write returns nil), is linearised
   by the harness as Batch [that write]; ReadFail; Batch [the queued ones]: the write loop
   answers nil without looking at the connection again.
   The request queue (capacity 1024) is not a state component: a writer that finds it full waits
   in select {send | ctx.Done}; if the send wins it is a queued write like any other, if the
   cancellation wins it returns ErrConnectionClosed - which is what write_one returns once
   rs_cancel holds.  A Batch lists the writes in the order their sends complete (the harness
   fixes it for the first 1025 and only lets overflow writers take part where all of them fail).
   Write callers are processes whose outcome is WOk | WErr | WBlocked: a caller is blocked for
   ever exactly when the write loop has returned and the context is not cancelled (or the
   model's fuel ran out, which is proved impossible).  A pending Read is PWait until something
   is handed to it. *)
From Coq Require Import List NArith Bool Arith.
From Iscp Require Import Lib.ListMap.
Import ListNotations.
Open Scope N_scope.

Definition ping : list N := [112; 105; 110; 103].   (* "ping" *)
Definition pong : list N := [112; 111; 110; 103].   (* "pong" *)
Definition list_N_eqb := list_beq N N.eqb.
Definition is_ping (bs : list N) : bool := list_N_eqb bs ping.

(* ---------- configuration ---------- *)

(* one dial attempt: fails, or yields a transport with write capacity [cap] (None = unlimited)
   whose first Read (the handshake read of reconnect) succeeds iff [hs] *)
Inductive dial := DFail | DOk (hs : bool) (cap : option N).

Record rcfg := mkRC {
  rc_budget : nat;           (* MaxReconnectAttempts as configured; 0 means 30 *)
  rc_tid : N;                (* 1 = DialConfig.TransportID configured, 2 = empty (uuid generated) *)
  rc_script : list dial;
  rc_tailhs : bool           (* what the dialer does once the script is used up *)
}.

Definition eff_budget (b : nat) : nat := match b with O => 30%nat | _ => b end.

(* ---------- state ---------- *)

Record sinc := mkI {
  i_cap : option N;              (* writes it will still accept *)
  i_log : list (list N);         (* writes it accepted, oldest first *)
  i_closed : bool;               (* Close or CloseWithStatus was called on it *)
  i_status : list N              (* statuses of the CloseWithStatus calls it received *)
}.

(* the part of the state touched by dialling and writing *)
Record net := mkNet {
  n_incs : list sinc;            (* every transport the dialer handed out, in creation order *)
  n_cur : nat;                   (* index of r.transport *)
  n_script : list dial;
  n_dials : list (N * bool)      (* (transport id code, Reconnect flag) of every attempt so far *)
}.

Inductive rres := ROk (bs : list N) | RErr | RBlocked.
Inductive pread := PNone | PWait | PDone (r : rres).

Record rstate := mkRS {
  rs_budget : nat;               (* effective MaxReconnectAttempts *)
  rs_tid : N;
  rs_tailhs : bool;
  rs_net : net;
  rs_cancel : bool;              (* r.ctx cancelled *)
  rs_wloop : bool;               (* the write loop is running *)
  rs_readq : list (option (list N));   (* readResCh: Some message | None = the reconnect error *)
  rs_rdead : bool;               (* the read loop has returned without a cancellation (readResCh closed) *)
  rs_pr : pread                  (* the (one) Read call issued by ReadStart and not yet joined *)
}.

Definition set_net st n := mkRS (rs_budget st) (rs_tid st) (rs_tailhs st) n (rs_cancel st) (rs_wloop st) (rs_readq st) (rs_rdead st) (rs_pr st).
Definition set_cancel st b := mkRS (rs_budget st) (rs_tid st) (rs_tailhs st) (rs_net st) b (rs_wloop st) (rs_readq st) (rs_rdead st) (rs_pr st).
Definition set_wloop st b := mkRS (rs_budget st) (rs_tid st) (rs_tailhs st) (rs_net st) (rs_cancel st) b (rs_readq st) (rs_rdead st) (rs_pr st).
Definition set_readq st q := mkRS (rs_budget st) (rs_tid st) (rs_tailhs st) (rs_net st) (rs_cancel st) (rs_wloop st) q (rs_rdead st) (rs_pr st).
Definition set_rdead st b := mkRS (rs_budget st) (rs_tid st) (rs_tailhs st) (rs_net st) (rs_cancel st) (rs_wloop st) (rs_readq st) b (rs_pr st).
Definition set_pr st p := mkRS (rs_budget st) (rs_tid st) (rs_tailhs st) (rs_net st) (rs_cancel st) (rs_wloop st) (rs_readq st) (rs_rdead st) p.

Fixpoint upd_nth {A} (n : nat) (f : A -> A) (l : list A) : list A :=
  match l, n with
  | [], _ => []
  | x :: l', O => f x :: l'
  | x :: l', S n' => x :: upd_nth n' f l'
  end.

Definition new_inc (cap : option N) : sinc := mkI cap [] false [].
Definition inc_accepts (i : sinc) : bool :=
  negb (i_closed i) && match i_cap i with Some 0 => false | _ => true end.
Definition inc_write (bs : list N) (i : sinc) : sinc :=
  mkI (match i_cap i with Some n => Some (n - 1) | None => None end) (i_log i ++ [bs]) (i_closed i) (i_status i).
Definition inc_close (i : sinc) : sinc := mkI (i_cap i) (i_log i) true (i_status i).
Definition inc_close_status (s : N) (i : sinc) : sinc := mkI (i_cap i) (i_log i) true (i_status i ++ [s]).

(* the next outcome of the scripted dialer *)
Definition next_dial (th : bool) (s : list dial) : dial :=
  match s with [] => if th then DOk false None else DFail | d :: _ => d end.

(* ---------- Dial: up to budget attempts, Reconnect flag clear, no handshake read ---------- *)

Fixpoint dial0 (tid : N) (th : bool) (fuel : nat) (n : net) : net * bool :=
  match fuel with
  | O => (n, false)
  | S f =>
      let ds := n_dials n ++ [(tid, false)] in
      match next_dial th (n_script n) with
      | DFail => dial0 tid th f (mkNet (n_incs n) (n_cur n) (tl (n_script n)) ds)
      | DOk _ cap => (mkNet (n_incs n ++ [new_inc cap]) (length (n_incs n)) (tl (n_script n)) ds, true)
      end
  end.

Definition rc_new (c : rcfg) : option rstate :=
  let b := eff_budget (rc_budget c) in
  let r := dial0 (rc_tid c) (rc_tailhs c) b (mkNet [] 0 (rc_script c) []) in
  if snd r then Some (mkRS b (rc_tid c) (rc_tailhs c) (fst r) false true [] false PNone) else None.

(* ---------- reconnect(old) with old = r.transport, called with r.mu held ---------- *)

Fixpoint redial (tid : N) (th : bool) (fuel : nat) (n : net) : net * bool :=
  match fuel with
  | O => (n, false)
  | S f =>
      let ds := n_dials n ++ [(tid, true)] in
      match next_dial th (n_script n) with
      | DFail => redial tid th f (mkNet (n_incs n) (n_cur n) (tl (n_script n)) ds)
      | DOk hs cap =>
          let incs := n_incs n ++ [new_inc cap] in
          if hs then (mkNet incs (length (n_incs n)) (tl (n_script n)) ds, true)
          else redial tid th f (mkNet incs (n_cur n) (tl (n_script n)) ds)
                                                    (* handshake read failed: counted, transport abandoned *)
      end
  end.

Definition close_cur (n : net) : net :=
  mkNet (upd_nth (n_cur n) inc_close (n_incs n)) (n_cur n) (n_script n) (n_dials n).

Definition reconnect (b : nat) (tid : N) (th : bool) (n : net) : net * bool :=
  redial tid th b (close_cur n).

(* ---------- the write loop on one request ---------- *)

Inductive wres := WOk | WErr | WBlocked.
Inductive wl := WLAccepted | WLExhausted | WLFuel.

(* fuel bounds the number of reconnect rounds; every successful round consumes a script entry *)
Fixpoint wloop_one (b : nat) (tid : N) (th : bool) (fuel : nat) (n : net) (bs : list N) : net * wl :=
  match nth_error (n_incs n) (n_cur n) with
  | None => (n, WLFuel)
  | Some i =>
      if inc_accepts i
      then (mkNet (upd_nth (n_cur n) (inc_write bs) (n_incs n)) (n_cur n) (n_script n) (n_dials n), WLAccepted)
      else match fuel with
           | O => (n, WLFuel)
           | S f =>
               let r := reconnect b tid th n in
               if snd r then wloop_one b tid th f (fst r) bs
               else (fst r, WLExhausted)
           end
  end.

(* r.cancel(): a Read that is waiting returns ErrConnectionClosed *)
Definition cancel_st (st : rstate) : rstate :=
  let st1 := set_cancel st true in
  match rs_pr st with PWait => set_pr st1 (PDone RErr) | _ => st1 end.

(* Write(bs) by a caller (or the pong of the ping loop), run to completion *)
Definition write_one (st : rstate) (bs : list N) : rstate * wres :=
  if rs_cancel st then (st, WErr)                  (* ErrConnectionClosed *)
  else if negb (rs_wloop st) then (st, WBlocked)   (* nobody serves the queue, nothing wakes the caller *)
  else
    let r := wloop_one (rs_budget st) (rs_tid st) (rs_tailhs st) (S (length (n_script (rs_net st)))) (rs_net st) bs in
    match snd r with
    | WLAccepted => (set_net st (fst r), WOk)
    | WLExhausted => (set_wloop (cancel_st (set_net st (fst r))) false, WErr)   (* reply, cancel, return *)
    | WLFuel => (set_net st (fst r), WBlocked)
    end.

Fixpoint write_batch (st : rstate) (ws : list (N * list N)) : rstate * list wres :=
  match ws with
  | [] => (st, [])
  | w :: ws' =>
      let r := write_one st (snd w) in
      let r' := write_batch (fst r) ws' in
      (fst r', snd r :: snd r')
  end.

(* ---------- events ---------- *)

Inductive rev :=
| Batch (ws : list (N * list N))             (* writes (writer, payload) handed to the queue in this order *)
| BatchClose (ws : list (N * list N)) (status : N) (cerr : bool)
                                             (* the same, the first held in flight; then CloseWithStatus *)
| Deliver (bs : list N)                      (* the current transport's Read returns bs to the read loop *)
| ReadFail (normal : bool) (cls : N)         (* [cls]: the close status the error carries - 0 none (abrupt),
                                                1 normal (iff [normal]), 2 going away, 3 abnormal, 4 internal error,
                                                5 plain ErrConnectionClosed; only [normal] matters to the code.
                                                The current transport's Read returns an error
                                                (normal: one that Is ErrConnectionNormalClose) *)
| ReadStart (take : bool)                    (* Transport.Read is called; [take] resolves the select race after cancel *)
| ReadJoin                                   (* what that Read call returned *)
| CloseE (status : N) (cerr : bool).         (* CloseWithStatus; [cerr]: the underlying connection's
                                                CloseWithStatus returns an error (it is torn down all the same) *)

Inductive rout :=
| OBatch (rs : list wres)
| OUnit
| OPong (ok : bool)                          (* a ping was answered; the pong was accepted *)
| OReadFail (alive : bool)                   (* the read loop survived the failure (redial succeeded) *)
| ORead (r : rres)
| OClose (err : bool).                       (* CloseWithStatus returned an error *)

Definition reading (st : rstate) : bool := negb (rs_cancel st) && negb (rs_rdead st).

Definition item_res (x : option (list N)) : rres := match x with Some bs => ROk bs | None => RErr end.

(* the read loop hands a result to readResCh *)
Definition push_read (st : rstate) (x : option (list N)) : rstate :=
  match rs_pr st with
  | PWait => set_pr st (PDone (item_res x))
  | _ => set_readq st (rs_readq st ++ [x])
  end.

(* the read loop returns: readResCh is closed *)
Definition kill_reader (st : rstate) : rstate :=
  let st1 := set_rdead st true in
  match rs_pr st with PWait => set_pr st1 (PDone RErr) | _ => st1 end.

Definition do_close (st : rstate) (status : N) : rstate :=
  let n := rs_net st in
  set_wloop (cancel_st (set_net st (mkNet (upd_nth (n_cur n) (inc_close_status status) (n_incs n)) (n_cur n) (n_script n) (n_dials n)))) false.

Definition read_start (st : rstate) (take : bool) : rstate :=
  match rs_pr st with
  | PNone =>
      match rs_readq st with
      | x :: q =>
          if rs_cancel st && negb take then set_pr st (PDone RErr)
          else set_pr (set_readq st q) (PDone (item_res x))
      | [] =>
          if rs_cancel st || rs_rdead st then set_pr st (PDone RErr) else set_pr st PWait
      end
  | _ => st
  end.

Definition rstep (st : rstate) (e : rev) : rstate * rout :=
  match e with
  | Batch ws => let r := write_batch st ws in (fst r, OBatch (snd r))
  | BatchClose ws status _ => (do_close st status, OBatch (map (fun _ => WErr) ws))
  | Deliver bs =>
      if reading st then
        if is_ping bs
        then let r := write_one st pong in
             (fst r, OPong (match snd r with WOk => true | _ => false end))
        else (push_read st (Some bs), OUnit)
      else (st, OUnit)
  | ReadFail normal _ =>
      if reading st then
        if normal then (kill_reader st, OReadFail false)
        else
          let r := reconnect (rs_budget st) (rs_tid st) (rs_tailhs st) (rs_net st) in
          if snd r then (set_net st (fst r), OReadFail true)
          else (set_wloop (cancel_st (kill_reader (push_read (set_net st (fst r)) None))) false, OReadFail false)
                                 (* budget exhausted: the error is handed to Read, r.cancel(), return *)
      else (st, OReadFail false)
  | ReadStart take => (read_start st take, OUnit)
  | ReadJoin =>
      match rs_pr st with
      | PDone r => (set_pr st PNone, ORead r)
      | PWait => (st, ORead RBlocked)
      | PNone => (st, OUnit)
      end
  | CloseE status cerr => (do_close st status, OClose cerr)
                                 (* r.cancel() whatever the underlying close returned; its error is handed on *)
  end.

Fixpoint rrun (st : rstate) (evs : list rev) : rstate * list rout :=
  match evs with
  | [] => (st, [])
  | e :: evs' =>
      let r := rstep st e in
      let r' := rrun (fst r) evs' in
      (fst r', snd r :: snd r')
  end.

(* ---------- the correspondence case ---------- *)

Definition inc_o := (list (list N) * bool * list N)%type.   (* accepted log, closed, statuses *)

Record rc_case := mkRcCase {
  rk_cfg : rcfg;
  rk_free : bool;                                 (* the harness did not hold the read loop back *)
  rk_new : bool;                                  (* observed: Dial succeeded *)
  rk_evs : list rev;
  rk_outs : list rout;                            (* observed: one outcome per event *)
  rk_incs : list inc_o;                           (* observed: per transport handed out *)
  rk_dials : list (N * bool);                     (* observed: (id code, Reconnect flag) per attempt; code 0 = wrong id *)
  rk_done : bool;                                 (* observed at the end: the transport's context is cancelled *)
  rk_postclose : N                                (* observed: dial attempts made after the first Close returned *)
}.

Definition wres_eqb (a b : wres) : bool :=
  match a, b with WOk, WOk | WErr, WErr | WBlocked, WBlocked => true | _, _ => false end.
Definition rres_eqb (a b : rres) : bool :=
  match a, b with
  | ROk x, ROk y => list_N_eqb x y
  | RErr, RErr | RBlocked, RBlocked => true
  | _, _ => false
  end.
Definition rout_eqb (a b : rout) : bool :=
  match a, b with
  | OBatch x, OBatch y => list_beq _ wres_eqb x y
  | OUnit, OUnit => true
  | OPong x, OPong y => Bool.eqb x y
  | OReadFail x, OReadFail y => Bool.eqb x y
  | ORead x, ORead y => rres_eqb x y
  | OClose x, OClose y => Bool.eqb x y
  | _, _ => false
  end.
Definition dial_eqb (a b : N * bool) : bool := (fst a =? fst b) && Bool.eqb (snd a) (snd b).
Definition inc_obs (i : sinc) : inc_o := (i_log i, i_closed i, i_status i).
Definition inc_obs_eqb (a b : inc_o) : bool :=
  list_beq _ list_N_eqb (fst (fst a)) (fst (fst b)) && Bool.eqb (snd (fst a)) (snd (fst b))
  && list_N_eqb (snd a) (snd b).
Definition inc_log_eqb (a b : inc_o) : bool := list_beq _ list_N_eqb (fst (fst a)) (fst (fst b)).

Fixpoint prefix_beq {A} (eq : A -> A -> bool) (p l : list A) : bool :=
  match p, l with
  | [], _ => true
  | x :: p', y :: l' => eq x y && prefix_beq eq p' l'
  | _ :: _, [] => false
  end.

(* [rk_free]: when the harness lets the read loop run freely, a write-side redial round that
   exhausts the budget may be followed by one more round of the read loop before it sees the
   cancellation; after a cancellation only a prefix of the attempts and of the transports is
   determined, and which transport a later Close hits is not.  The accepted logs always are. *)
Definition rc_corr (c : rc_case) : bool :=
  match rc_new (rk_cfg c) with
  | None =>
      negb (rk_new c) &&
      match rk_evs c, rk_outs c with [], [] => true | _, _ => false end
  | Some st =>
      rk_new c &&
      (let r := rrun st (rk_evs c) in
       let mi := map inc_obs (n_incs (rs_net (fst r))) in
       let md := n_dials (rs_net (fst r)) in
       list_beq _ rout_eqb (snd r) (rk_outs c)
       && Bool.eqb (rs_cancel (fst r)) (rk_done c) && (rk_postclose c =? 0)
       && (if rk_free c && rs_cancel (fst r)
           then prefix_beq inc_log_eqb mi (rk_incs c)
                && forallb (fun o => match fst (fst o) with [] => true | _ => false end)
                           (skipn (length mi) (rk_incs c))
                && prefix_beq dial_eqb md (rk_dials c)
           else list_beq _ inc_obs_eqb mi (rk_incs c) && list_beq _ dial_eqb md (rk_dials c)))
  end.

(* ---------- the property predicate: input and the implementation's observation only ---------- *)

(* payloads of the writes whose Write returned nil, in the order they were handed to the queue,
   and the pongs that were accepted, in event order *)
Fixpoint oks (ws : list (N * list N)) (rs : list wres) : list (list N) :=
  match ws, rs with
  | w :: ws', WOk :: rs' => snd w :: oks ws' rs'
  | _ :: ws', _ :: rs' => oks ws' rs'
  | _, _ => []
  end.
Definition accepted_of (eo : rev * rout) : list (list N) :=
  match eo with
  | (Batch ws, OBatch rs) => oks ws rs
  | (BatchClose ws _ _, OBatch rs) => oks ws rs
  | (Deliver _, OPong true) => [pong]
  | _ => []
  end.
Definition accepted_stream (tr : list (rev * rout)) : list (list N) := concat (map accepted_of tr).

Definition all_payloads (tr : list (rev * rout)) : list (list N) :=
  concat (map (fun eo => match fst eo with
                         | Batch ws => map snd ws
                         | BatchClose ws _ _ => map snd ws
                         | _ => [] end) tr).
Fixpoint nodupb (l : list (list N)) : bool :=
  match l with
  | [] => true
  | x :: l' => negb (existsb (list_N_eqb x) l') && nodupb l'
  end.
Definition memb_bs (x : list N) (l : list (list N)) : bool := existsb (list_N_eqb x) l.

(* Failure and read discipline, judged on the outcomes alone: a monitor.
   d_cz = the transport is over (Close was called, or a Write / a pong failed, i.e. the write
   side exhausted its budget, or the read side did); d_rx = the read side exhausted its budget
   (a read failure the read loop did not survive); d_rn = the peer closed normally; d_q = what was delivered and
   not yet handed out (None = the reconnect error of an exhausted read side); d_pr = the
   pending Read.
   - no Write is ever Blocked; a Write fails only when the transport is over and from then on
     every Write fails; once the redial budget is exhausted - on either side - or Close was
     called, no Write returns nil (the property text: "pending and later Reads and Writes fail
     with an error");
   - Read hands out exactly the delivered messages in order, never a ping; it is Blocked only
     while the transport is live and nothing is queued; once the transport is over or the read
     loop has ended it fails (a message queued before may still be handed out);
   - a ping on a live transport is answered. *)
Record disc := mkDi { d_cz : bool; d_rx : bool; d_rn : bool; d_q : list (option (list N)); d_pr : pread }.

Definition d_live (d : disc) : bool := negb (d_cz d) && negb (d_rx d) && negb (d_rn d).
Definition d_wake (d : disc) : pread := match d_pr d with PWait => PDone RErr | p => p end.
Definition d_over (d : disc) : disc := mkDi true (d_rx d) (d_rn d) (d_q d) (d_wake d).
Definition d_push (d : disc) (x : option (list N)) : disc :=
  match d_pr d with
  | PWait => mkDi (d_cz d) (d_rx d) (d_rn d) (d_q d) (PDone (item_res x))
  | _ => mkDi (d_cz d) (d_rx d) (d_rn d) (d_q d ++ [x]) (d_pr d)
  end.

Fixpoint wres_all (d : disc) (rs : list wres) : option disc :=
  match rs with
  | [] => Some d
  | WBlocked :: _ => None
  | WOk :: rs' => if negb (d_cz d) && negb (d_rx d) then wres_all d rs' else None
  | WErr :: rs' => wres_all (d_over d) rs'
  end.

Definition disc_step (d : disc) (eo : rev * rout) : option disc :=
  match eo with
  | (Batch ws, OBatch rs) =>
      if Nat.eqb (length ws) (length rs) then wres_all d rs else None
  | (BatchClose ws _ _, OBatch rs) =>
      if Nat.eqb (length ws) (length rs) && forallb (fun r => match r with WErr => true | _ => false end) rs
      then Some (d_over d) else None
  | (Deliver bs, OUnit) =>
      if is_ping bs then (if d_live d then None else Some d)
      else Some (if d_live d then d_push d (Some bs) else d)
  | (Deliver bs, OPong ok) =>
      if is_ping bs && d_live d then Some (if ok then d else d_over d) else None
  | (ReadFail normal _, OReadFail alive) =>
      if d_live d then
        if normal then (if alive then None else Some (mkDi (d_cz d) (d_rx d) true (d_q d) (d_wake d)))
        else if alive then Some d
        else let d1 := d_push d None in Some (mkDi true true (d_rn d1) (d_q d1) (d_pr d1))
      else if alive then None else Some d
  | (ReadStart take, OUnit) =>
      match d_pr d with
      | PNone =>
          match d_q d with
          | x :: q =>
              if d_cz d && negb take then Some (mkDi (d_cz d) (d_rx d) (d_rn d) (d_q d) (PDone RErr))
              else Some (mkDi (d_cz d) (d_rx d) (d_rn d) q (PDone (item_res x)))
          | [] =>
              Some (mkDi (d_cz d) (d_rx d) (d_rn d) []
                         (if d_cz d || d_rx d || d_rn d then PDone RErr else PWait))
          end
      | _ => Some d
      end
  | (ReadJoin, ORead r) =>
      match d_pr d with
      | PDone r' => if rres_eqb r r' then Some (mkDi (d_cz d) (d_rx d) (d_rn d) (d_q d) PNone) else None
      | PWait => match r with RBlocked => Some d | _ => None end
      | PNone => None
      end
  | (ReadJoin, OUnit) => match d_pr d with PNone => Some d | _ => None end
  | (CloseE _ _, OClose _) => Some (d_over d)
  | _ => None
  end.
Fixpoint disc_run (d : disc) (tr : list (rev * rout)) : bool :=
  match tr with
  | [] => true
  | eo :: tr' => match disc_step d eo with None => false | Some d' => disc_run d' tr' end
  end.
Definition disc_init : disc := mkDi false false false [] PNone.

(* redial parameters: every attempt carries the one transport id; the Reconnect flag is clear
   up to and including the first successful attempt (Dial) and set on every later one.
   [n0] = number of attempts Dial made = failures at the head of the script + 1. *)
Fixpoint head_fails (s : list dial) : nat :=
  match s with DFail :: s' => S (head_fails s') | _ => O end.
Fixpoint dials_ok (tid : N) (n0 : nat) (ds : list (N * bool)) : bool :=
  match ds with
  | [] => true
  | d :: ds' =>
      (fst d =? tid) &&
      match n0 with
      | O => snd d && dials_ok tid O ds'
      | S n => negb (snd d) && dials_ok tid n ds'
      end
  end.

(* exactly once, in order: the accepted writes, restricted to those whose Write returned nil
   (and the answered pings), are exactly those writes in issue order.  Judged when the payloads
   identify the writes (distinct, none equal to "pong"). *)
Definition once_in_order (tr : list (rev * rout)) (incs : list inc_o) : bool :=
  let acc := concat (map (fun x => fst (fst x)) incs) in
  let okw := accepted_stream tr in
  if nodupb (all_payloads tr) && negb (memb_bs pong (all_payloads tr))
  then list_beq _ list_N_eqb (filter (fun b => memb_bs b okw) acc) okw
  else true.

(* Close is final whatever the underlying close reported: once Close (alone or with writes in
   flight) has been called the context is done and no dial attempt is made any more. *)
Definition closed_trace (tr : list (rev * rout)) : bool :=
  existsb (fun eo => match fst eo with CloseE _ _ | BatchClose _ _ _ => true | _ => false end) tr.

Definition rc_ok (c : rc_case) : bool :=
  if negb (rk_new c) then true
  else
    let tr := combine (rk_evs c) (rk_outs c) in
    Nat.eqb (length (rk_evs c)) (length (rk_outs c))
    && once_in_order tr (rk_incs c)
    && disc_run disc_init tr
    && dials_ok (rc_tid (rk_cfg c)) (S (head_fails (rc_script (rk_cfg c)))) (rk_dials c)
    && (if closed_trace tr then rk_done c && (rk_postclose c =? 0) else true).

Definition rc_judge (c : rc_case) : N :=
  (if rc_corr c then 0 else 1) + (if rc_ok c then 0 else 2).

(* the case the model itself produces *)
Definition model_case (c : rcfg) (evs : list rev) : rc_case :=
  match rc_new c with
  | None => mkRcCase c false false [] [] [] [] false 0
  | Some st =>
      let r := rrun st evs in
      mkRcCase c false true evs (snd r) (map inc_obs (n_incs (rs_net (fst r)))) (n_dials (rs_net (fst r)))
               (rs_cancel (fst r)) 0
  end.

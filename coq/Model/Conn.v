(* Model of the connection supervisor of iscp-go, as the code is:
     iscp/state.go      connStatus: Swap / CompareAndSwap / CompareAndSwapNot / waitUntil (+hooker)
     iscp/conn.go       the run loop  run -> reconnect -> OnReconnected -> run,  send() retry wrapper,
                        reconnect() (CAS, retry.Do(connectWire), panic on failed CAS), close()
     iscp/conn_options.go  connectWire: one TokenSource.Token() call per dial attempt
     iscp/upstream.go, iscp/downstream.go   run() watcher -> Resuming -> WaitUntil(Connected) -> resume
     iscp/e2e.go        call(): WithCloseStatus context around send()
   Every goroutine wake-up, link failure, broker answer and user call is an EVENT, so "for all
   schedules / fault sequences / histories" is "for all event lists".  In particular the wake-up of
   each stream watcher is its own event (EWatch i): a schedule where the status goes
   Reconnecting -> Connected before a watcher looks at it is an ordinary event list (finding F9).
   The record [cfg] switches single statements between the code as it was before the fix commits
   9b8bda8 (F5), b47e52f (F10), eca7266 (F19), 0d5b8e3 (supervisor leak), 741ede2 (F9), 110718a (F46) and the code as
   it is now.  [faithful] is the code AS IT IS NOW (all repairs in); [former] is the code before those
   commits, kept so that the refutations stay checkable.  Executable; no proofs here. *)
From Coq Require Import List NArith Bool.
Import ListNotations.
Open Scope N_scope.

(* ------------------------------------------------------------------------------------------ *)
(* state.go *)

Inductive cstatus := Connected | Reconnecting | Closed.
Definition cs_eqb (a b : cstatus) : bool :=
  match a, b with
  | Connected, Connected | Reconnecting, Reconnecting | Closed, Closed => true
  | _, _ => false
  end.

(* Swap: (new current, old) *)
Definition st_swap (new cur : cstatus) : cstatus * cstatus := (new, cur).
(* CompareAndSwap(old,new): (current afterwards, swapped) *)
Definition st_cas (old new cur : cstatus) : cstatus * bool :=
  if cs_eqb cur old then (new, true) else (cur, false).
(* CompareAndSwapNot(old,new) *)
Definition st_cas_not (old new cur : cstatus) : cstatus * bool :=
  if cs_eqb cur old then (cur, false) else (new, true).

Record cfg := mkCfg {
  fix_f5 : bool;     (* waitUntil calls hooker(e.current) instead of hooker(status) *)
  fix_f9 : bool;     (* stream watchers also fire when the connection generation is not theirs *)
  fix_f10 : bool;    (* reconnect discards the new connection and returns ErrConnectionClosed instead of panicking on the failed CAS *)
  fix_leak : bool;   (* stream supervisors wait with WaitUntilOrClosed *)
  fix_f19 : bool;    (* closeWithError registers the closed event also when its close request fails *)
  fix_f46 : bool;    (* Downstream.resume subscribes its alias once per connection, not once per attempt: the retry
                        after a RESUME_REQUEST_CONFLICT answer works (110718a) *)
  ctx_first : bool   (* NOT in /repo: waitUntil looks at ctx.Done() BEFORE it consults the closed-status hook
                        (the order matters: the e2e senders wait on a context that a watcher cancels as soon as
                        the status is Closed) *)
}.
Definition faithful : cfg := mkCfg true true true true true true false.     (* /repo as it is now *)
Definition former : cfg := mkCfg false false false false false false false.  (* /repo before the fix commits *)

(* one evaluation of the loop of waitUntil(ctx, target, hooker): return nil / return the hooker's
   error / cond.Wait().  The hooker of WaitUntilOrClosed answers "closed" for connStatusClosed;
   the former code handed it [status] - the TARGET - not e.current (F5); now e.current. *)
Inductive wobs := WRet | WErr | WCtx | WWait.
Definition closed_hooker (c : cstatus) : bool := cs_eqb c Closed.
(* [ctxdone]: the caller's context is already done when the loop looks.  In the loop body the code
   consults the hooker FIRST and the context SECOND; [ctxfirst] swaps the two. *)
Definition wait_until (fixed ctxfirst : bool) (target cur : cstatus) (hook ctxdone : bool) : wobs :=
  if cs_eqb target cur then (if ctxdone then WCtx else WRet)       (* the select after the loop *)
  else if ctxfirst then
    (if ctxdone then WCtx
     else if hook && closed_hooker (if fixed then cur else target) then WErr else WWait)
  else
    (if hook && closed_hooker (if fixed then cur else target) then WErr
     else if ctxdone then WCtx else WWait).

(* ------------------------------------------------------------------------------------------ *)
(* state *)

(* error classes of API returns (errors.Is against the sentinels of /repo/errors) *)
Inductive rclass :=
| RNil | RStreamClosed | RConnClosed | ROtherISCP | RCanceled | RDeadline | ROther | RBlocked | RPanic.
Definition rc_code (r : rclass) : N :=
  match r with RNil => 0 | RStreamClosed => 1 | RConnClosed => 2 | ROtherISCP => 3 | RCanceled => 4
             | RDeadline => 5 | ROther => 6 | RBlocked => 7 | RPanic => 8 end.

Inductive lphase :=
| LRun      (* the loop goroutine is inside run(ctx) *)
| LDial     (* inside reconnect(): holds wireConnMu, retry.Do(connectWire) *)
| LExit     (* the goroutine has returned *)
| LPanic.   (* the goroutine has panicked (process crash) *)
Inductive cphase :=
| CNone | CSwapped   (* Close: Swap(Closed) done, waiting for wireConnMu / before SendDisconnect *)
| CDisc              (* Disconnect handed to the transport, SendDisconnect not yet returned *)
| CDone.             (* wireConn.Close() done *)
Inductive sphase :=
| SWatch       (* stream.run in progress: the watcher waits for connStatusReconnecting *)
| SWaitConn    (* watcher fired, stream status Resuming, supervisor in WaitUntil(ctx, Connected) *)
| SResuming    (* resume request written on wire incarnation s_held *)
| SDraining    (* the user's Close swapped the stream status to Draining and wrote the close request on
                  s_held; its response is pending.  Another Close meanwhile returns "already draining" *)
| SClosed (ev byuser : bool).  (* stream context cancelled; ev: a closed event was registered *)
Inductive rkind := KOpenUp | KOpenDown | KMeta | KCall | KCallWait.
Inductive rphase :=
| QWait              (* inside send(): WaitUntilOrClosed(ctx, Connected) *)
| QFlight (g : N)    (* request written on wire incarnation g, waiting for the response *)
| QAck (g : N)       (* call written on g; waiting for the ack outside send() *)
| QDone.
Inductive resp := RespOk | RespRefused | RespConflict.  (* conflict = RESUME_REQUEST_CONFLICT: not final, retry.Do sends the request again *)

Record stream := mkS { s_id : N; s_down : bool; s_held : N; s_phase : sphase; s_buf : bool }.
Record req := mkQ { q_id : N; q_kind : rkind; q_phase : rphase }.

Record conn := mkC {
  c_cfg : cfg;
  c_status : cstatus;
  c_gen : N;          (* which established wire connection c.wireConn is (0 = the one of Connect) *)
  c_up : bool;        (* the link under c.wireConn is alive *)
  c_wclosed : bool;   (* c.wireConn.Close() has run: its context is done, its transport closed *)
  c_loop : lphase;
  c_tokens : N;       (* TokenSource.Token() calls so far *)
  c_dials : N;        (* dial attempts so far (= transport incarnations created) *)
  c_streams : list stream;
  c_reqs : list req;
  c_close : cphase
}.

Inductive out :=
| OToken (n : N)                        (* n-th call of TokenSource.Token() *)
| OConnect (att tok : N)                (* ConnectRequest on dial attempt att carrying token tok *)
| ODisconnected | OReconnected          (* connection event handlers *)
| OResumeReq (g id : N) (down : bool)   (* Upstream/DownstreamResumeRequest on wire incarnation g *)
| OResumed (id : N)                     (* stream resumed event *)
| OStreamClosed (id : N) (witherr : bool)
| OCloseReq (g id : N)                  (* stream close request *)
| OReq (g id : N) (k : rkind)           (* open / metadata / call written *)
| ORet (id : N) (r : rclass)            (* API call returns *)
| OChunk (g id : N)                     (* data flushed by stream id *)
| ODisconnect (g : N)                   (* Disconnect message *)
| OPanic.

Inductive ev :=
| ELinkDown                 (* the link under the current wire connection dies *)
| EDetect                   (* keepalive notices: wireConn.Close() *)
| ELoop                     (* the run-loop goroutine is scheduled *)
| EDial (ok : bool)         (* one connectWire attempt of retry.Do completes *)
| EWatch (i : N)            (* the watcher goroutines of stream i are scheduled and look at the status *)
| ESup (i : N)              (* the supervisor goroutine of stream i is scheduled *)
| EResumeResp (i : N) (r : resp)
| EStart (k : N) (kd : rkind)   (* the user calls OpenUpstream/OpenDownstream/SendMetadata/SendCall/... *)
| EWake (k : N)             (* request k, inside send(), is scheduled *)
| EResp (k : N)             (* the broker's answer to request k arrives *)
| EFail (k : N)             (* request k notices that the wire connection it used is closed *)
| ECtx (k : N)              (* the context of request k ends *)
| EWrite (i : N)            (* the user writes into stream i *)
| EStreamClose (i : N)      (* the user calls Close on stream i (any number of times, overlapping or not) *)
| EStreamCloseResp (i : N)  (* the exchange of stream i's close request ends: response, or its wire connection closed *)
| EStreamCloseRefused (i : N)  (* the broker answers stream i's close request with a failure result code *)
| ECloseCall                (* Conn.Close: Swap(Closed) *)
| ECloseDisc                (* Conn.Close: SendDisconnect hands Disconnect to the transport *)
| ECloseWire.               (* Conn.Close: wireConn.Close() *)

(* setters *)
Definition set_status (c : conn) (v : cstatus) : conn :=
  mkC (c_cfg c) v (c_gen c) (c_up c) (c_wclosed c) (c_loop c) (c_tokens c) (c_dials c) (c_streams c) (c_reqs c) (c_close c).
Definition set_up (c : conn) (v : bool) : conn :=
  mkC (c_cfg c) (c_status c) (c_gen c) v (c_wclosed c) (c_loop c) (c_tokens c) (c_dials c) (c_streams c) (c_reqs c) (c_close c).
Definition set_wclosed (c : conn) (v : bool) : conn :=
  mkC (c_cfg c) (c_status c) (c_gen c) (c_up c) v (c_loop c) (c_tokens c) (c_dials c) (c_streams c) (c_reqs c) (c_close c).
Definition set_loop (c : conn) (v : lphase) : conn :=
  mkC (c_cfg c) (c_status c) (c_gen c) (c_up c) (c_wclosed c) v (c_tokens c) (c_dials c) (c_streams c) (c_reqs c) (c_close c).
Definition set_counts (c : conn) (t d : N) : conn :=
  mkC (c_cfg c) (c_status c) (c_gen c) (c_up c) (c_wclosed c) (c_loop c) t d (c_streams c) (c_reqs c) (c_close c).
Definition set_streams (c : conn) (v : list stream) : conn :=
  mkC (c_cfg c) (c_status c) (c_gen c) (c_up c) (c_wclosed c) (c_loop c) (c_tokens c) (c_dials c) v (c_reqs c) (c_close c).
Definition set_reqs (c : conn) (v : list req) : conn :=
  mkC (c_cfg c) (c_status c) (c_gen c) (c_up c) (c_wclosed c) (c_loop c) (c_tokens c) (c_dials c) (c_streams c) v (c_close c).
Definition set_close (c : conn) (v : cphase) : conn :=
  mkC (c_cfg c) (c_status c) (c_gen c) (c_up c) (c_wclosed c) (c_loop c) (c_tokens c) (c_dials c) (c_streams c) (c_reqs c) v.
(* c.wireConn = res *)
Definition set_wire (c : conn) (g : N) : conn :=
  mkC (c_cfg c) (c_status c) g true false (c_loop c) (c_tokens c) (c_dials c) (c_streams c) (c_reqs c) (c_close c).

Definition set_phase (s : stream) (p : sphase) : stream := mkS (s_id s) (s_down s) (s_held s) p (s_buf s).
Definition set_held (s : stream) (g : N) : stream := mkS (s_id s) (s_down s) g (s_phase s) (s_buf s).
Definition set_buf (s : stream) (b : bool) : stream := mkS (s_id s) (s_down s) (s_held s) (s_phase s) b.
Definition set_qphase (q : req) (p : rphase) : req := mkQ (q_id q) (q_kind q) p.

Fixpoint find_s (i : N) (l : list stream) : option stream :=
  match l with [] => None | s :: l' => if s_id s =? i then Some s else find_s i l' end.
Fixpoint upd_s (i : N) (f : stream -> stream) (l : list stream) : list stream :=
  match l with [] => [] | s :: l' => if s_id s =? i then f s :: l' else s :: upd_s i f l' end.
Fixpoint find_q (k : N) (l : list req) : option req :=
  match l with [] => None | q :: l' => if q_id q =? k then Some q else find_q k l' end.
Fixpoint upd_q (k : N) (f : req -> req) (l : list req) : list req :=
  match l with [] => [] | q :: l' => if q_id q =? k then f q :: l' else q :: upd_q k f l' end.

Definition writable (c : conn) : bool := c_up c && negb (c_wclosed c).
Definition is_closed (c : conn) : bool := cs_eqb (c_status c) Closed.
(* c.call() wraps the context with WithCloseStatus *)
Definition closectx (k : rkind) : bool := match k with KCall | KCallWait => true | _ => false end.
(* API entries that start with `if c.isClosed() { return ErrConnectionClosed }` *)
Definition entry_guard (k : rkind) : bool := match k with KOpenUp | KOpenDown | KCall => true | _ => false end.
Definition is_call (k : rkind) : bool := match k with KCall | KCallWait => true | _ => false end.

(* ------------------------------------------------------------------------------------------ *)
(* steps *)

(* Connect's goroutine: for { run(ctx); reconnect(ctx); OnReconnected } *)
Definition loop_step (c : conn) : conn * list out :=
  match c_loop c with
  | LRun =>
      if is_closed c then (set_loop c LExit, [ODisconnected])          (* run returns nil; deferred OnDisconnected *)
      else if cs_eqb (c_status c) Reconnecting || c_wclosed c then
        (* run returns an error; reconnect(): CompareAndSwapNot(Closed, Reconnecting); c.wireConn.Close() *)
        let r := st_cas_not Closed Reconnecting (c_status c) in
        if snd r then (set_loop (set_wclosed (set_status c (fst r)) true) LDial, [ODisconnected])
        else (set_loop c LExit, [ODisconnected])
      else (c, [])
  | _ => (c, [])
  end.

(* one attempt of retry.Do inside reconnect(): connectWire = Token() + dial + handshake *)
Definition dial_step (c : conn) (ok : bool) : conn * list out :=
  match c_loop c with
  | LDial =>
      let t := c_tokens c in
      let o := [OToken t; OConnect (c_dials c) t] in
      let c1 := set_counts c (t + 1) (c_dials c + 1) in
      if ok then
        (* c.wireConn = res; CompareAndSwap(Reconnecting, Connected) else panic *)
        let r := st_cas Reconnecting Connected (c_status c) in
        if snd r then (set_loop (set_status (set_wire c1 (c_gen c + 1)) (fst r)) LRun, o ++ [OReconnected])
        else if fix_f10 (c_cfg c) then (set_loop c1 LExit, o)
        else (set_loop c1 LPanic, o ++ [OPanic])
      else
        (* return c.state.Is(connStatusClosed) *)
        if is_closed c then (set_loop c1 LExit, o) else (c1, o)
  | _ => (c, [])
  end.

Definition watch_step (c : conn) (i : N) : conn * list out :=
  match find_s i (c_streams c) with
  | Some s =>
      match s_phase s with
      | SWatch =>
          if is_closed c then
            (* WaitUntil(ctx, Closed) returns: cancel(); flushLoop sees ctx.Done and flushes on its wire *)
            (set_streams c (upd_s i (fun s => set_buf (set_phase s (SClosed false false)) false) (c_streams c)),
             if s_buf s && (s_held s =? c_gen c) && writable c then [OChunk (c_gen c) i] else [])
          else if cs_eqb (c_status c) Reconnecting || (fix_f9 (c_cfg c) && negb (s_held s =? c_gen c)) then
            (set_streams c (upd_s i (fun s => set_phase s SWaitConn) (c_streams c)), [])
          else (c, [])
      | SDraining =>
          (* a user Close is waiting for its close response when the connection is closed: the close watcher
             cancels the stream context, the supervisor returns and the stream's dispatcher stops - the closed
             event that the pending Close registers when its exchange ends is then never delivered *)
          if is_closed c
          then (set_streams c (upd_s i (fun s => set_phase s (SClosed false true)) (c_streams c)), [])
          else (c, [])
      | _ => (c, [])
      end
  | None => (c, [])
  end.

Definition sup_step (c : conn) (i : N) : conn * list out :=
  match find_s i (c_streams c) with
  | Some s =>
      match s_phase s with
      | SWaitConn =>
          match c_status c with
          | Connected =>
              (* resume(c.wireConn): u.wireConn = newConn; send the resume request *)
              if writable c then
                (set_streams c (upd_s i (fun s => set_phase (set_held s (c_gen c)) SResuming) (c_streams c)),
                 [OResumeReq (c_gen c) i (s_down s)])
              else
                (* the write fails; closeWithError: the close request fails too.  Formerly it returned before
                   registering the closed event (F19); now the event carries the resume error *)
                if fix_f19 (c_cfg c)
                then (set_streams c (upd_s i (fun s => set_phase (set_held s (c_gen c)) (SClosed true false)) (c_streams c)),
                      [OStreamClosed i true])
                else (set_streams c (upd_s i (fun s => set_phase (set_held s (c_gen c)) (SClosed false false)) (c_streams c)), [])
          | Reconnecting => (c, [])
          | Closed =>
              (* formerly WaitUntil(ctx, Connected) with a background context: never returned;
                 now WaitUntilOrClosed: the supervisor returns *)
              if fix_leak (c_cfg c)
              then (set_streams c (upd_s i (fun s => set_phase s (SClosed false false)) (c_streams c)), [])
              else (c, [])
          end
      | _ => (c, [])
      end
  | None => (c, [])
  end.

Definition resume_resp_step (c : conn) (i : N) (r : resp) : conn * list out :=
  match find_s i (c_streams c) with
  | Some s =>
      match s_phase s with
      | SResuming =>
          if (s_held s =? c_gen c) && negb (c_wclosed c) then
            if c_up c then
              match r with
              | RespOk => (set_streams c (upd_s i (fun s => set_phase s SWatch) (c_streams c)), [OResumed i])
              | RespRefused =>
                  (set_streams c (upd_s i (fun s => set_phase s (SClosed true false)) (c_streams c)),
                   [OCloseReq (c_gen c) i; OStreamClosed i true])
              | RespConflict =>
                  (* the broker still holds the old incarnation of the stream: not a final answer; retry.Do
                     runs the attempt again: the resume request is written again and whatever an earlier
                     attempt answered is forgotten.  FORMERLY (before 110718a, F46) the retried attempt of a
                     DOWNSTREAM first subscribed its alias again on the same wire connection - "already
                     subscribed" - and the stream was closed with that error *)
                  if s_down s && negb (fix_f46 (c_cfg c))
                  then (set_streams c (upd_s i (fun s => set_phase s (SClosed true false)) (c_streams c)),
                        [OCloseReq (c_gen c) i; OStreamClosed i true])
                  else (c, [OResumeReq (c_gen c) i (s_down s)])
              end
            else (c, [])
          else
            (* sendRequest returns ErrConnectionClosed; closeWithError fails on its close request: formerly no
               event (F19), now the closed event with the error - unless the connection itself was closed,
               in which case the stream context is already cancelled and closeWithError returns at once *)
            if fix_f19 (c_cfg c) && negb (is_closed c)
            then (set_streams c (upd_s i (fun s => set_phase s (SClosed true false)) (c_streams c)), [OStreamClosed i true])
            else (set_streams c (upd_s i (fun s => set_phase s (SClosed false false)) (c_streams c)), [])
      | _ => (c, [])
      end
  | None => (c, [])
  end.

Definition id_used (c : conn) (k : N) : bool :=
  match find_q k (c_reqs c), find_s k (c_streams c) with None, None => false | _, _ => true end.

Definition start_step (c : conn) (k : N) (kd : rkind) : conn * list out :=
  if id_used c k then (c, [])
  else if entry_guard kd && is_closed c then (set_reqs c (c_reqs c ++ [mkQ k kd QDone]), [ORet k RConnClosed])
  else (set_reqs c (c_reqs c ++ [mkQ k kd QWait]), []).

(* send(): for { WaitUntilOrClosed(ctx, Connected); f(ctx); on ErrConnectionClosed: CompareAndSwapNot(Closed, Reconnecting) } *)
Definition wake_step (c : conn) (k : N) : conn * list out :=
  match find_q k (c_reqs c) with
  | Some q =>
      match q_phase q with
      | QWait =>
          (* c.call() hands send() a WithCloseStatus context: a watcher cancels it as soon as the status is
             Closed, so by the time the loop looks it may already be done - the worst case is taken *)
          match wait_until (fix_f5 (c_cfg c)) (ctx_first (c_cfg c)) Connected (c_status c) true
                           (is_closed c && closectx (q_kind q)) with
          | WRet =>
              if writable c then
                (set_reqs c (upd_q k (fun q => set_qphase q (if is_call (q_kind q) then QAck (c_gen c) else QFlight (c_gen c))) (c_reqs c)),
                 [OReq (c_gen c) k (q_kind q)])
              else
                let r := st_cas_not Closed Reconnecting (c_status c) in
                if snd r then (set_status c (fst r), [])
                else (set_reqs c (upd_q k (fun q => set_qphase q QDone) (c_reqs c)), [ORet k RConnClosed])
          | WErr => (set_reqs c (upd_q k (fun q => set_qphase q QDone) (c_reqs c)), [ORet k RConnClosed])
          | WCtx => (set_reqs c (upd_q k (fun q => set_qphase q QDone) (c_reqs c)), [ORet k RCanceled])
          | WWait => (c, [])
          end
      | _ => (c, [])
      end
  | None => (c, [])
  end.

Definition resp_step (c : conn) (k : N) : conn * list out :=
  match find_q k (c_reqs c) with
  | Some q =>
      match q_phase q with
      | QFlight g | QAck g =>
          if (g =? c_gen c) && writable c then
            let c1 := set_reqs c (upd_q k (fun q => set_qphase q QDone) (c_reqs c)) in
            match q_kind q with
            | KOpenUp => (set_streams c1 (c_streams c1 ++ [mkS k false g SWatch false]), [ORet k RNil])
            | KOpenDown => (set_streams c1 (c_streams c1 ++ [mkS k true g SWatch false]), [ORet k RNil])
            | _ => (c1, [ORet k RNil])
            end
          else (c, [])
      | _ => (c, [])
      end
  | None => (c, [])
  end.

Definition fail_step (c : conn) (k : N) : conn * list out :=
  match find_q k (c_reqs c) with
  | Some q =>
      match q_phase q with
      | QFlight g =>
          if negb (g =? c_gen c) || c_wclosed c then
            (* sendRequest returns ErrConnectionClosed inside f; send(): CompareAndSwapNot(Closed, Reconnecting) *)
            let r := st_cas_not Closed Reconnecting (c_status c) in
            if snd r then (set_reqs (set_status c (fst r)) (upd_q k (fun q => set_qphase q QWait) (c_reqs c)), [])
            else (set_reqs c (upd_q k (fun q => set_qphase q QDone) (c_reqs c)), [ORet k RConnClosed])
          else (c, [])
      | QAck g =>
          (* outside send(): only the WithCloseStatus context ends the wait *)
          if is_closed c then (set_reqs c (upd_q k (fun q => set_qphase q QDone) (c_reqs c)), [ORet k RConnClosed])
          else (c, [])
      | _ => (c, [])
      end
  | None => (c, [])
  end.

Definition ctx_step (c : conn) (k : N) : conn * list out :=
  match find_q k (c_reqs c) with
  | Some q =>
      match q_phase q with
      | QDone => (c, [])
      | _ => (set_reqs c (upd_q k (fun q => set_qphase q QDone) (c_reqs c)), [ORet k RDeadline])
      end
  | None => (c, [])
  end.

Definition write_step (c : conn) (i : N) : conn * list out :=
  match find_s i (c_streams c) with
  | Some s => match s_phase s with
              | SClosed _ _ => (c, [])
              | _ => (set_streams c (upd_s i (fun s => set_buf s true) (c_streams c)), [])
              end
  | None => (c, [])
  end.

(* Upstream.Close / Downstream.Close by the user: state.Swap(Draining) guards the whole call, so a Close
   that overlaps another one returns "already draining" without touching the wire *)
Definition stream_close_step (c : conn) (i : N) : conn * list out :=
  match find_s i (c_streams c) with
  | Some s =>
      match s_phase s with
      | SClosed _ _ => (c, [])
      | SDraining =>
          (* Upstream: "already draining", nothing else.  Downstream: closeWithError starts with
             `defer d.cancel()`, so the overlapping call, while returning "already draining", cancels the
             stream under the first call: the stream's dispatcher stops and the closed event that the
             first call registers when its response arrives is never delivered *)
          if s_down s
          then (set_streams c (upd_s i (fun s => set_phase s (SClosed false true)) (c_streams c)), [])
          else (c, [])
      | SWatch =>
          if is_closed c then (c, [])
          else if (s_held s =? c_gen c) && writable c then
            (* final flush, then the close request; the response is awaited *)
            (set_streams c (upd_s i (fun s => set_buf (set_phase s SDraining) false) (c_streams c)),
             (if s_buf s then [OChunk (c_gen c) i] else []) ++ [OCloseReq (c_gen c) i])
          else if fix_f19 (c_cfg c)
          then (set_streams c (upd_s i (fun s => set_phase s (SClosed true true)) (c_streams c)), [OStreamClosed i false])
          else (set_streams c (upd_s i (fun s => set_phase s (SClosed false true)) (c_streams c)), [])
      | _ =>
          (* status Resuming: the close request goes to the stale wire connection and fails *)
          if is_closed c then (c, [])
          else if fix_f19 (c_cfg c)
          then (set_streams c (upd_s i (fun s => set_phase s (SClosed true true)) (c_streams c)), [OStreamClosed i false])
          else (set_streams c (upd_s i (fun s => set_phase s (SClosed false true)) (c_streams c)), [])
      end
  | None => (c, [])
  end.

Definition stream_close_resp_step (c : conn) (i : N) : conn * list out :=
  match find_s i (c_streams c) with
  | Some s =>
      match s_phase s with
      | SDraining =>
          if (s_held s =? c_gen c) && writable c then
            (set_streams c (upd_s i (fun s => set_phase s (SClosed true true)) (c_streams c)), [OStreamClosed i false])
          else if c_wclosed c || negb (s_held s =? c_gen c) then
            (* the wire connection was closed under the exchange: formerly no event (F19), now the event *)
            if fix_f19 (c_cfg c)
            then (set_streams c (upd_s i (fun s => set_phase s (SClosed true true)) (c_streams c)), [OStreamClosed i false])
            else (set_streams c (upd_s i (fun s => set_phase s (SClosed false true)) (c_streams c)), [])
          else (c, [])
      | _ => (c, [])
      end
  | None => (c, [])
  end.

Definition close_call_step (c : conn) : conn * list out :=
  let r := st_swap Closed (c_status c) in
  let c1 := set_status c (fst r) in
  match c_close c with CNone => (set_close c1 CSwapped, []) | _ => (c1, []) end.

Definition close_disc_step (c : conn) : conn * list out :=
  match c_close c, c_loop c with
  | CSwapped, LDial => (c, [])                                   (* wireConnMu is held by reconnect() *)
  | CSwapped, _ =>
      if writable c then (set_close c CDisc, [ODisconnect (c_gen c)])
      else (set_close (set_wclosed c true) CDone, [])
  | _, _ => (c, [])
  end.

Definition close_wire_step (c : conn) : conn * list out :=
  match c_close c with CDisc => (set_close (set_wclosed c true) CDone, []) | _ => (c, []) end.

Definition step (c : conn) (e : ev) : conn * list out :=
  match e with
  | ELinkDown => (set_up c false, [])
  | EDetect => if c_up c then (c, []) else (set_wclosed c true, [])
  | ELoop => loop_step c
  | EDial ok => dial_step c ok
  | EWatch i => watch_step c i
  | ESup i => sup_step c i
  | EResumeResp i r => resume_resp_step c i r
  | EStart k kd => start_step c k kd
  | EWake k => wake_step c k
  | EResp k => resp_step c k
  | EFail k => fail_step c k
  | ECtx k => ctx_step c k
  | EWrite i => write_step c i
  | EStreamClose i => stream_close_step c i
  | EStreamCloseResp i => stream_close_resp_step c i
  | EStreamCloseRefused i =>
      (* Close returns the FailedMessageError, but the stream is final whatever the answer: the context is
         cancelled (defer cancel) and the closed event registered exactly as for a success *)
      stream_close_resp_step c i
  | ECloseCall => close_call_step c
  | ECloseDisc => close_disc_step c
  | ECloseWire => close_wire_step c
  end.

Fixpoint run (c : conn) (evs : list ev) : conn * list out :=
  match evs with
  | [] => (c, [])
  | e :: evs' => let p := step c e in let q := run (fst p) evs' in (fst q, snd p ++ snd q)
  end.

(* state right after iscp.Connect returned: one token, one dial *)
Definition init (f : cfg) : conn := mkC f Connected 0 true false LRun 1 1 [] [] CNone.
Definition init_outs : list out := [OToken 0; OConnect 0 0].

(* ------------------------------------------------------------------------------------------ *)
(* after-close API matrix: every API entry as its sequence of guards, evaluated on a state *)

Inductive api :=
| AOpenUp | AOpenDown | AMeta | ACall | AReplyCall | ACallWait | ARecvCall | ARecvReply | AConnClose
| AUpWrite | AUpFlush | AUpClose | ADownRead | ADownReadMeta | ADownClose.

(* send() entered on state c with a context that has a deadline (closectx: wrapped by WithCloseStatus) *)
Definition send_entry (c : conn) (cctx : bool) : rclass :=
  match wait_until (fix_f5 (c_cfg c)) (ctx_first (c_cfg c)) Connected (c_status c) true (is_closed c && cctx) with
  | WRet => RNil
  | WErr => RConnClosed
  | WCtx => RCanceled
  | WWait => RDeadline
  end.

(* conn-level entries; [RNil] = the call proceeds to the wire *)
Definition conn_api (c : conn) (a : api) : rclass :=
  match a with
  | AOpenUp | AOpenDown | ACall | AReplyCall => if is_closed c then RConnClosed else send_entry c (match a with ACall | AReplyCall => true | _ => false end)
  | AMeta => send_entry c false
  | ACallWait => send_entry c true
  | ARecvCall | ARecvReply => if is_closed c then RConnClosed else RDeadline
  | AConnClose => RNil
  | _ => ROther
  end.

(* stream-level entries on a stream whose context is cancelled *)
Definition stream_api_closed (byuser : bool) (a : api) : rclass :=
  match a with
  | AUpWrite | AUpFlush | ADownRead | ADownReadMeta => RStreamClosed
  | AUpClose => if byuser then ROther (* errors.New("already draining") *) else RNil
  | ADownClose => RNil
  | _ => ROther
  end.

(* ------------------------------------------------------------------------------------------ *)
(* event_dispatcher.go: addHandler appends to a FIFO; dispatchLoop takes the whole queue as a batch,
   runs it outside the lock, and looks at its context ONLY while the queue is empty - so whatever was
   queued before or while a (slow) batch runs is delivered before the loop exits. *)
Inductive dev :=
| DAdd (h : N)     (* addHandler *)
| DCancel          (* the dispatcher's context is cancelled (the stream supervisor returned) *)
| DTake            (* the loop is scheduled at its head: exit / wait / take the queue as a batch *)
| DDone.           (* the batch it was running returns (user handlers may be slow) *)
Record dstate := mkD { d_q : list N; d_batch : list N; d_running : bool; d_delivered : list N; d_ctx : bool; d_exited : bool }.
Definition dinit : dstate := mkD [] [] false [] false false.
(* [hasty] = the loop also leaves when its context is done right after a batch (NOT the code) *)
Definition dstep (hasty : bool) (s : dstate) (e : dev) : dstate :=
  match e with
  | DAdd h => mkD (d_q s ++ [h]) (d_batch s) (d_running s) (d_delivered s) (d_ctx s) (d_exited s)
  | DCancel => mkD (d_q s) (d_batch s) (d_running s) (d_delivered s) true (d_exited s)
  | DTake =>
      if d_exited s || d_running s then s
      else match d_q s with
           | [] => if d_ctx s then mkD [] [] false (d_delivered s) true true else s
           | q => mkD [] q true (d_delivered s) (d_ctx s) false
           end
  | DDone =>
      if d_running s then
        mkD (d_q s) [] false (d_delivered s ++ d_batch s) (d_ctx s) (hasty && d_ctx s)
      else s
  end.
Definition drun (hasty : bool) (s : dstate) (evs : list dev) : dstate := fold_left (dstep hasty) evs s.
Definition dadds (evs : list dev) : list N := concat (map (fun e => match e with DAdd h => [h] | _ => [] end) evs).

(* a stream call that is PENDING (a writer blocked in WriteDataPoints because no flush loop exists during
   an outage, a Flush caller, a consumer blocked in ReadDataPoints / ReadMetadata): every such wait has the
   stream context as one of its arms, so it ends exactly when the stream context is cancelled *)
Definition pending_stream_call (c : conn) (i : N) (a : api) : rclass :=
  match find_s i (c_streams c) with
  | Some s => match s_phase s with SClosed _ b => stream_api_closed b a | _ => RBlocked end
  | None => ROther
  end.
Definition data_path (a : api) : bool :=
  match a with AUpWrite | AUpFlush | ADownRead | ADownReadMeta => true | _ => false end.

(* ------------------------------------------------------------------------------------------ *)
(* projections of an output trace *)

Definition connects_of (o : list out) : list (N * N) :=
  concat (map (fun x => match x with OConnect a t => [(a, t)] | _ => [] end) o).
Definition tokens_of (o : list out) : list N :=
  concat (map (fun x => match x with OToken n => [n] | _ => [] end) o).
Definition resumereqs_of (o : list out) : list (N * N * bool) :=
  concat (map (fun x => match x with OResumeReq g i d => [(g, i, d)] | _ => [] end) o).
Definition resumed_of (o : list out) : list N :=
  concat (map (fun x => match x with OResumed i => [i] | _ => [] end) o).
Definition sclosed_of (o : list out) : list (N * bool) :=
  concat (map (fun x => match x with OStreamClosed i e => [(i, e)] | _ => [] end) o).
Definition closereqs_of (o : list out) : list N :=
  concat (map (fun x => match x with OCloseReq _ i => [i] | _ => [] end) o).
Definition rets_of (o : list out) : list (N * N) :=
  concat (map (fun x => match x with ORet k r => [(k, rc_code r)] | _ => [] end) o).
Definition reqs_of (o : list out) : list (N * N) :=
  concat (map (fun x => match x with OReq g k _ => [(g, k)] | _ => [] end) o).
Definition count_disc (o : list out) : N :=
  N.of_nat (length (filter (fun x => match x with ODisconnected => true | _ => false end) o)).
Definition count_reconn (o : list out) : N :=
  N.of_nat (length (filter (fun x => match x with OReconnected => true | _ => false end) o)).
Definition has_panic (o : list out) : bool :=
  existsb (fun x => match x with OPanic => true | _ => false end) o.
(* messages on the wire other than pings and the Disconnect itself *)
Definition is_wire (x : out) : bool :=
  match x with OResumeReq _ _ _ | OCloseReq _ _ | OReq _ _ _ | OChunk _ _ | OConnect _ _ => true | _ => false end.
Definition is_disconnect (x : out) : bool := match x with ODisconnect _ => true | _ => false end.
Fixpoint after_disconnect (o : list out) : list out :=
  match o with [] => [] | x :: o' => if is_disconnect x then o' else after_disconnect o' end.
Definition wire_after_disconnect (o : list out) : list out := filter is_wire (after_disconnect o).

Fixpoint ins (k : N) (l : list N) : list N :=
  match l with [] => [k] | x :: l' => if k <=? x then k :: l else x :: ins k l' end.
Definition sortN (l : list N) : list N := fold_right ins [] l.

(* final condition of a stream: 0 attached to the current wire connection, 1 silently detached,
   2 closed with a closed event, 3 context cancelled without any event, 4 resume in progress *)
Definition final_code (c : conn) (s : stream) : N :=
  match s_phase s with
  | SWatch => if s_held s =? c_gen c then 0 else 1
  | SClosed true _ => 2
  | SClosed false _ => 3
  | _ => 4
  end.
Definition finals_of (c : conn) : list (N * N) := map (fun s => (s_id s, final_code c s)) (c_streams c).

Definition pair_eqb (a b : N * N) : bool := (fst a =? fst b) && (snd a =? snd b).
Fixpoint list_eqb {A} (f : A -> A -> bool) (a b : list A) : bool :=
  match a, b with
  | [], [] => true
  | x :: a', y :: b' => f x y && list_eqb f a' b'
  | _, _ => false
  end.
Definition code3 (x : N * N * bool) : N := fst (fst x) * 2000 + snd (fst x) * 2 + (if snd x then 1 else 0).
Definition code2 (x : N * N) : N := fst x * 1000 + snd x.
Definition codeb (x : N * bool) : N := fst x * 2 + (if snd x then 1 else 0).

(* ------------------------------------------------------------------------------------------ *)
(* C05 correspondence case (h-conn) *)

Record cn_case := mkCn {
  cn_evs : list ev;                    (* the fault script and calls, with the schedule facts read off the observation *)
  (* observations on the real code *)
  cn_connects : list (N * N);          (* ConnectRequests at the broker: (dial attempt, token number) *)
  cn_tokens : N;                       (* TokenSource.Token() calls *)
  cn_resumes : list (N * N * bool);    (* resume requests: (wire incarnation, stream, downstream), sorted *)
  cn_resume_ids_ok : bool;             (* every resume request carried a known stream id (downstream: its original alias)
                                          and no two downstreams of the connection share a stream id alias *)
  cn_disc : N; cn_reconn : N;          (* handler calls before the final Close *)
  cn_resumed : list N;                 (* resumed events (stream), sorted *)
  cn_sclosed : list (N * bool);        (* stream closed events (stream, with error), sorted *)
  cn_rets : list (N * N);              (* API returns (request, class code), sorted by request *)
  cn_finals : list (N * N);            (* (stream, final_code) in opening order, measured by using the stream *)
  cn_excused : list N;                 (* streams whose resume the broker refused, or whose resume exchange was cut
                                          (the broker killed the link at a resume request / the stream's close request
                                          never reached the broker): the only streams that may end closed *)
  cn_exact : bool                      (* false: only the property predicate is evaluated (schedule could not be read off) *)
}.

Definition cn_model (c : cn_case) : conn * list out := run (init faithful) (cn_evs c).

Definition cn_corr (c : cn_case) : bool :=
  if cn_exact c then
    let r := cn_model c in
    let o := init_outs ++ snd r in
    list_eqb pair_eqb (connects_of o) (cn_connects c)
    && (c_tokens (fst r) =? cn_tokens c)
    && list_eqb N.eqb (sortN (map code3 (resumereqs_of o))) (map code3 (cn_resumes c))
    && (count_disc o =? cn_disc c) && (count_reconn o =? cn_reconn c)
    && list_eqb N.eqb (sortN (resumed_of o)) (cn_resumed c)
    && list_eqb N.eqb (sortN (map codeb (sclosed_of o))) (map codeb (cn_sclosed c))
    && list_eqb N.eqb (sortN (map code2 (rets_of o))) (map code2 (cn_rets c))
    && list_eqb pair_eqb (finals_of (fst r)) (cn_finals c)
    && negb (has_panic o)
  else true.

(* the property, on the observation alone *)
Fixpoint iota_pairs (n : nat) (k : N) : list (N * N) :=
  match n with O => [] | S n' => (k, k) :: iota_pairs n' (k + 1) end.
Definition count_eq (i : N) (l : list N) : N := N.of_nat (length (filter (N.eqb i) l)).

Definition c05_ok (c : cn_case) : bool :=
  (* a fresh token on every attempt: attempt k carries token k, and nothing else was asked for *)
  list_eqb pair_eqb (cn_connects c) (iota_pairs (length (cn_connects c)) 0)
  && (N.of_nat (length (cn_connects c)) =? cn_tokens c)
  (* every stream that was opened successfully works on the current wire connection at the end; it may
     be reported closed (with the error) only if its resume was refused or its resume exchange was cut *)
  && forallb (fun f => (snd f =? 0) || ((snd f =? 2) && existsb (N.eqb (fst f)) (cn_excused c))) (cn_finals c)
  && forallb (fun e => snd e && existsb (N.eqb (fst e)) (cn_excused c)) (cn_sclosed c)
  && cn_resume_ids_ok c
  (* the user never closed: every open / metadata / call returned nil, or - a call whose ack was lost
     with the link - its own context error; never a connection error or any other error *)
  && forallb (fun r => (snd r =? 0) || (snd r =? 5)) (cn_rets c)
  (* notifications once per outage *)
  && (cn_disc c =? cn_reconn c)
  && forallb (fun f => count_eq (fst f) (cn_resumed c) <=? cn_reconn c) (cn_finals c)
  && forallb (fun i => count_eq i (cn_resumed c) <=? count_eq i (map (fun x => snd (fst x)) (cn_resumes c))) (cn_resumed c)
  && forallb (fun e => count_eq (fst e) (map fst (cn_sclosed c)) =? 1) (cn_sclosed c).

Definition cn_judge (c : cn_case) : N :=
  (if cn_corr c then 0 else 1) + (if c05_ok c then 0 else 2).

(* ------------------------------------------------------------------------------------------ *)
(* C10 correspondence case (h-close) *)

Definition api_of_code (n : N) : api :=
  match n with
  | 0 => AOpenUp | 1 => AOpenDown | 2 => AMeta | 3 => ACall | 4 => AReplyCall | 5 => ACallWait
  | 6 => ARecvCall | 7 => ARecvReply | 8 => AConnClose | 9 => AUpWrite | 10 => AUpFlush | 11 => AUpClose
  | 12 => ADownRead | 13 => ADownReadMeta | _ => ADownClose
  end.

Record cl_case := mkCl {
  cl_evs : list ev;                   (* the history up to and including the returned Close *)
  (* observations on the real code, all made after Close returned *)
  cl_conn_matrix : list (N * N);      (* (api code, class code) of conn-level calls *)
  cl_stream_matrix : list (N * N * N);(* (stream, api code, class code) *)
  cl_wire_after : N;                  (* request/stream/call/ack messages after Disconnect (pings excepted) *)
  cl_connects_after : N;              (* dial attempts after Close returned *)
  cl_disc_after : N; cl_reconn_after : N;   (* handler calls after Close was called *)
  cl_sclosed : list (N * bool);       (* stream closed events over the whole history, sorted *)
  cl_closereqs : list N;              (* stream close requests on the wire (stream), one entry per request, sorted *)
  cl_closereq_max : N;                (* largest number of close requests of one stream on one wire incarnation *)
  cl_leaked : N;                      (* goroutines with library frames 2 s after both ends are closed *)
  cl_panic : bool;
  cl_close_rets : list N              (* class codes of the Close calls *)
}.

Definition cl_model (c : cl_case) : conn * list out := run (init faithful) (cl_evs c).

Definition stream_byuser (c : conn) (i : N) : bool :=
  match find_s i (c_streams c) with
  | Some s => match s_phase s with SClosed _ b => b | _ => false end
  | None => false
  end.
Definition leaked_sups (c : conn) : N :=
  N.of_nat (length (filter (fun s => match s_phase s with SWaitConn => true | _ => false end) (c_streams c))).

Definition cl_corr (c : cl_case) : bool :=
  let r := cl_model c in
  let o := snd r in
  forallb (fun m => rc_code (conn_api (fst r) (api_of_code (fst m))) =? snd m) (cl_conn_matrix c)
  && forallb (fun m => rc_code (stream_api_closed (stream_byuser (fst r) (fst (fst m))) (api_of_code (snd (fst m)))) =? snd m)
             (cl_stream_matrix c)
  && list_eqb N.eqb (sortN (map codeb (sclosed_of o))) (map codeb (cl_sclosed c))
  && list_eqb N.eqb (sortN (closereqs_of o)) (cl_closereqs c)
  && Bool.eqb (has_panic o) (cl_panic c)
  && Bool.eqb (0 <? leaked_sups (fst r)) (0 <? cl_leaked c)
  && (cl_wire_after c =? N.of_nat (length (wire_after_disconnect o))).

Definition c10_ok (c : cl_case) : bool :=
  (* documented sentinel errors, promptly *)
  forallb (fun m => if fst m =? 8 then snd m =? 0 else snd m =? 2) (cl_conn_matrix c)
  && forallb (fun m => match api_of_code (snd (fst m)) with
                       | AUpClose | ADownClose => (snd m =? 0) || (snd m =? 1) || (snd m =? 6)
                       | _ => snd m =? 1
                       end) (cl_stream_matrix c)
  && forallb (fun r => (r =? 0)) (cl_close_rets c)
  (* silence, no reconnect *)
  && (cl_wire_after c =? 0) && (cl_connects_after c =? 0)
  (* notifications at most once *)
  && (cl_disc_after c <=? 1) && (cl_reconn_after c =? 0)
  && forallb (fun e => count_eq (fst e) (map fst (cl_sclosed c)) =? 1) (cl_sclosed c)
  (* however many sequential or overlapping Close calls: at most one close request per stream *)
  && forallb (fun i => count_eq i (cl_closereqs c) =? 1) (cl_closereqs c) && (cl_closereq_max c <=? 1)
  (* nothing left behind *)
  && (cl_leaked c =? 0) && negb (cl_panic c).

Definition cl_judge (c : cl_case) : N :=
  (if cl_corr c then 0 else 1) + (if c10_ok c then 0 else 2).

(* Case record and judge of h-loopback: the REAL transports (transport/webtransport,
   transport/quic, transport/websocket with a real backend) over loopback sockets.  On a real
   socket the wire bytes cannot be observed, so a case holds only
     input       : per writer (stream cases) / per handle (datagram cases) the messages in write
                   order, each described by (length, digest) - the harness compares the bytes in Go
     observation : per successful Read at the peer, the harness' byte-for-byte attribution to
                   (writer, index) plus length and digest of what was read; error flags; counters.
   The model side is the length-level image of Model/Framing.v (frame = 4-byte prefix + payload,
   counters add 4+len per frame; segment.SendTo adds 8 bytes per segment): Proofs/LoopbackProofs.v
   shows that a trace produced by Framing's frame/parse satisfies [lb_ok] and [lb_corr].
   Executable; no proofs here. *)
From Coq Require Import List NArith Bool.
From Iscp Require Import Lib.ListMap Lib.Bytes Model.Segment Model.Framing.
Import ListNotations.
Open Scope N_scope.

(* h' = (257 h + b + 1) mod 2^61 (same function as Model/Window.v digest, c13util.Digest in Go) *)
Definition lb_digest (l : list N) : N :=
  fold_left (fun h b => N.land (257 * h + b + 1) 2305843009213693951) l 0.
Definition lb_desc (m : list N) : N * N := (lenN m, lb_digest m).

Inductive lb_kind :=
| LbFramed            (* quic / webtransport stream: 4-byte big-endian length, payload *)
| LbWs                (* websocket: one WebSocket message per message *)
| LbDgram (P : N).    (* quic / webtransport datagrams, segment payload size P *)

(* one successful Read at the peer *)
Record lb_read := mkRd {
  rd_att : option (N * N);   (* harness: the bytes read equal message [index] of writer/handle [w], byte for byte *)
  rd_len : N;                (* length of what was read *)
  rd_dig : N                 (* digest of what was read *)
}.

Record lb_case := mkLb {
  lb_k : lb_kind;
  lb_comp : bool;                       (* input: compression negotiated (level non-zero) *)
  lb_conc : bool;                       (* input: the writers ran concurrently (false: writer 0 first, then writer 1, ...) *)
  lb_writers : list (list (N * N));     (* input: per writer goroutine / datagram handle, (length, digest) of its messages in write order *)
  lb_werrs : N;                         (* observed: number of Write calls that returned an error *)
  lb_reads : list lb_read;              (* observed: the peer's successful reads, in order *)
  lb_rerr : bool;                       (* observed: a Read returned an error / did not return while the transports were open *)
  lb_tx : N; lb_rx : N;                 (* observed: writer transport's tx counter, reader transport's rx counter *)
  lb_htx : list N;                      (* observed (datagram): TxBytesCounterValue of handle 1, 2, ... *)
  lb_inj : N;                           (* input (datagram): number of malformed datagrams sent on the raw session, never produced by the library
                                           (shorter than the header / segment index beyond the announced count / a lone segment of a
                                           longer message, each under a sequence number of its own): none may be handed up *)
  lb_injb : N                           (* input (datagram): their total size in bytes (the peer's rx counter counts them) *)
}.

(* ---------- helpers ---------- *)

Definition desc_at (writers : list (list (N * N))) (w i : N) : option (N * N) :=
  nth_error (nth (N.to_nat w) writers []) (N.to_nat i).

Definition desc_eqb (a b : N * N) : bool := (fst a =? fst b) && (snd a =? snd b).

(* the read is attributed, to an existing message, whose length and digest it has *)
Definition read_wf (writers : list (list (N * N))) (r : lb_read) : bool :=
  match rd_att r with
  | None => false
  | Some wi =>
      match desc_at writers (fst wi) (snd wi) with
      | Some d => desc_eqb d (rd_len r, rd_dig r)
      | None => false
      end
  end.

Fixpoint bump (w : nat) (next : list N) : list N :=
  match next, w with
  | [], _ => []
  | n :: t, O => (n + 1) :: t
  | n :: t, S w' => n :: bump w' t
  end.

(* the reads consume every writer's messages in that writer's order: [next] holds, per writer,
   the index of its next unread message; None = a read that is not the next message of its writer *)
Fixpoint in_order (writers : list (list (N * N))) (next : list N) (reads : list lb_read) : option (list N) :=
  match reads with
  | [] => Some next
  | r :: rs =>
      match rd_att r with
      | None => None
      | Some wi =>
          match nth_error next (N.to_nat (fst wi)) with
          | Some n => if (n =? snd wi) && read_wf writers r
                      then in_order writers (bump (N.to_nat (fst wi)) next) rs
                      else None
          | None => None
          end
      end
  end.

Definition pair_eqb (a b : N * N) : bool := (fst a =? fst b) && (snd a =? snd b).
Fixpoint nodup_pairs (l : list (N * N)) : bool :=
  match l with
  | [] => true
  | x :: l' => negb (existsb (pair_eqb x) l') && nodup_pairs l'
  end.

Definition all_lens (writers : list (list (N * N))) : list N := map fst (concat writers).
Definition sumN (l : list N) : N := fold_left N.add l 0.

(* length-level image of Framing.q_rx_count / q_tx: every frame adds 4 + len (uint64) *)
Definition framed_bytes (lens : list N) : N := fold_left (fun a l => add64 a (4 + l)) lens 0.
Definition plain_bytes (lens : list N) : N := fold_left (fun a l => add64 a l) lens 0.
(* segment.SendTo: one datagram when len <= P, else len/P + 1 datagrams (the last possibly
   empty); every datagram carries an 8-byte header *)
Definition nseg (P len : N) : N := if len <=? P then 1 else len / P + 1.
Definition dgram_bytes (P : N) (lens : list N) : N :=
  fold_left (fun a l => add64 a (l + 8 * nseg P l)) lens 0.

Fixpoint seq_atts_from (w : N) (writers : list (list (N * N))) : list (N * N) :=
  match writers with
  | [] => []
  | ms :: ws => map (fun i => (w, i)) (countup 0 (length ms)) ++ seq_atts_from (w + 1) ws
  end.

Definition att_eqb (a : option (N * N)) (b : N * N) : bool :=
  match a with Some x => pair_eqb x b | None => false end.
Fixpoint atts_eqb (l : list lb_read) (e : list (N * N)) : bool :=
  match l, e with
  | [], [] => true
  | r :: l', x :: e' => att_eqb (rd_att r) x && atts_eqb l' e'
  | _, _ => false
  end.

(* ---------- model side: what frame/parse and the counters predict ---------- *)

Definition lb_corr (c : lb_case) : bool :=
  let lens := all_lens (lb_writers c) in
  match lb_k c with
  | LbDgram P =>
      (* every write succeeds, no read fails while the transports are open; sequence numbers
         are not observable here *)
      (lb_werrs c =? 0) && negb (lb_rerr c)
      && (if lb_comp c then true else lb_tx c =? dgram_bytes P lens)
      && list_beq N N.eqb (lb_htx c) (map (fun ms => sumN (map fst ms) mod two64) (tl (lb_writers c)))
  | k =>
      (lb_werrs c =? 0) && negb (lb_rerr c)
      && (lenN (lb_reads c) =? lenN lens)
      (* writers one after the other: the stream is the concatenation of their frames, the
         parser returns them in that order *)
      && (if lb_conc c then true else atts_eqb (lb_reads c) (seq_atts_from 0 (lb_writers c)))
      (* compression off: the payload is the message, the counters follow from the lengths *)
      && (if lb_comp c then true
          else
            let b := match k with LbFramed => framed_bytes lens | _ => plain_bytes lens end in
            (lb_tx c =? b) && (lb_rx c =? b))
  end.

(* ---------- the property predicate, on the observation only ---------- *)

Definition lb_ok (c : lb_case) : bool :=
  let writers := lb_writers c in
  match lb_k c with
  | LbDgram P =>
      (* every message handed up is a written message (exactly: never partial, never mixed) ... *)
      negb (lb_rerr c) && forallb (read_wf writers) (lb_reads c)
      (* ... and each written message at most once (loss is allowed) *)
      && nodup_pairs (concat (map (fun r => match rd_att r with Some x => [x] | None => [] end) (lb_reads c)))
      (* counters: the peer cannot have received more datagram bytes than were sent (by the
         library and, in hostile cases, on the raw session); a handle counts the message bytes
         written through it *)
      && (lb_rx c <=? lb_tx c + lb_injb c)
      && list_beq N N.eqb (lb_htx c) (map (fun ms => sumN (map fst ms) mod two64) (tl writers))
  | k =>
      (* no failed write, no failed read *)
      (lb_werrs c =? 0) && negb (lb_rerr c)
      (* the reads are an interleaving of the writers' sequences: one message per call, byte for
         byte, each writer's order kept, every message exactly once *)
      && match in_order writers (map (fun _ => 0) writers) (lb_reads c) with
         | Some fin => list_beq N N.eqb fin (map lenN writers)
         | None => false
         end
      (* counters: what the writer counted is what the reader counted ... *)
      && (lb_tx c =? lb_rx c)
      (* ... and with compression off that is the framed bytes *)
      && (if lb_comp c then true
          else lb_rx c =? (sumN (map (fun l => l + match k with LbFramed => 4 | _ => 0 end) (all_lens writers))) mod two64)
  end.

Definition lb_judge (c : lb_case) : N :=
  (if lb_corr c then 0 else 1) + (if lb_ok c then 0 else 2).

(* ---------- the trace the Framing model produces for one sequential writer ---------- *)

(* in-order attribution of decoded frames to the written messages *)
Fixpoint attribute (k : N) (ms frames : list (list N)) : list lb_read :=
  match frames with
  | [] => []
  | f :: fs =>
      match ms with
      | m :: ms' => mkRd (if bytes_eqb f m then Some (0, k) else None) (lenN f) (lb_digest f)
                      :: attribute (k + 1) ms' fs
      | [] => mkRd None (lenN f) (lb_digest f) :: attribute (k + 1) [] fs
      end
  end.

(* write ms with q_write_all (compression off), decode the stream with parse_all *)
Definition lb_of_model (ms : list (list N)) : lb_case :=
  let s := q_write_all (mkQtx [] 0) ms in
  let p := parse_all (q_stream s) in
  mkLb LbFramed false false [map lb_desc ms] 0
       (attribute 0 ms (fst p)) (negb (snd p)) (q_tx s) (q_rx_count (fst p)) [] 0 0.

(* Model of a reliable upstream across transport failures (C02): the stream model of
   Model/Upstream.v (imported, not edited) + the state of the stream's wire connection + the
   connection's sent storage (Model/Storage.v) + stream status + the per-chunk ack waiters + the
   resend queue of Upstream.run(isResume) + a well-formed broker's ledger.  Executable; no proofs.

   Source (as it is NOW): iscp/upstream.go  flush (Store before send, one goroutine per chunk),
   sendChunkAndWaitAck / withAckTimeoutCh (Remove on a result or on an ack timeout; a wait that ends
   because the run was cancelled removes nothing - /repo f65e166, formerly the cancel race F2),
   run (watcher -> Resuming, final flush of flushLoop on cancellation, resend of every stored chunk
   for reliable QoS / Clear otherwise), resume (request with the ORIGINAL stream id, conflict
   retried, refusal or a cut exchange close the stream), closeWithErrorAndState (the closed event
   is delivered whether or not the close request succeeds - /repo eca7266, formerly F19), Close
   (drain, wait, close request with the totals); iscp/conn.go:94 chooses the payload-keeping
   storage ([c_keep] = true; the former default dropped payloads: F1, /repo f1380ca).

   All nondeterminism is in the event list: where the link dies (loudly or silently), which chunks
   the broker received and acknowledged before, when the client notices, the order in which stored
   chunks are resent (Go map order), resume outcomes.  [z_link] is the state of the wire connection
   the STREAM holds; a redial only makes a new incarnation available ([z_avail]); the stream moves
   to it when its resume succeeds (it may notice the outage before or after the redial: /repo
   741ede2).  Granularity: a flush is atomic with the transport write of its chunk (the harness
   awaits the broker's reception before the next step); the List of run(isResume) is atomic with
   the successful resume (the harness awaits the library's List call before it goes on).
   No event for a late cleanup of the previous run: since /repo e9acd3a (finding F44) readAckLoop
   waits for readResultLoop and readAliasLoop before it returns, and run waits for readAckLoop, so
   the waiter table is wiped before resume() can register a waiter of the next run - the waiters of
   one run end at EDetect and never later. *)
From Coq Require Import List NArith Bool.
From Iscp Require Import Lib.ListMap Model.Upstream Model.Storage.
Import ListNotations.
Open Scope N_scope.

Definition the_sid : N := 1.          (* the stream id handed out by the open response *)

Inductive lstate := LUp | LDownLoud | LDownSilent.
Inductive sstatus := SConnected | SDraining | SResuming | SClosedOk | SClosedErr.
Inductive resume_outcome := ROk | RConflict | RRefused | RCut.

Record rcfg := mkCfg {
  c_keep : bool;                (* payload-keeping storage (true = the default; false = inmemSentStorageNoPayload) *)
  c_reliable : bool;            (* QoS reliable: resend on resume; otherwise Clear *)
  c_clear : clear_variant
}.

Definition chunkT := (N * list wgroup * list N)%type.
Definition decode_chunk (c : chunkT) : groups := map (fun g : wgroup => (fst (fst g), snd g)) (snd (fst c)).

Inductive revt :=
| EApi (o : uop)                 (* Write / Flush / Tick / Alias / Results / Close(begin) as in Model/Upstream *)
| ECloseEnd                      (* the wait of the Close call in progress is over: close request, Close returns *)
| EAckTimeout (seq : N)
| ELinkDown (silent : bool)      (* the live connection dies (the stream's, or the freshly dialled one) *)
| EDetect                        (* the stream notices: status Resuming, run cancelled, final flush *)
| ERedial                        (* a new transport incarnation is up, conn Connected *)
| EResume (r : resume_outcome)   (* one resume request and its outcome *)
| EResend (seq : N).             (* the resend loop transmits stored chunk seq *)

Record rstate := mkR {
  z_u : ustate;
  z_sent : sstate;
  z_link : lstate;                   (* the wire connection the stream holds *)
  z_inc : N;                         (* latest transport incarnation *)
  z_status : sstatus;
  z_waiters : list N;                (* chunks whose sender goroutine waits for a result *)
  z_queue : list (N * groups);       (* snapshot taken by run(isResume): still to be resent *)
  (* ghosts *)
  z_cut : list chunkT;               (* every chunk ever cut, in order *)
  z_removed : list (N * N);          (* (seq, why) removed from storage: 0 result, 1 ack timeout *)
  z_ledger : list (N * N * groups);  (* broker: (incarnation, seq, decoded content) of every reception *)
  z_txinc : list N;                  (* seqs transmitted in the latest incarnation *)
  z_closereqs : list (N * N);        (* close requests the broker received: (total, final seq) *)
  z_closedev : list bool;            (* closed events delivered to the application: carries an error? *)
  z_resumes : N;                     (* resume requests sent (all carry the_sid: u.ID never changes) *)
  z_avail : bool;                    (* a redialled connection the stream has not yet resumed on *)
  z_closing : bool                   (* an application Close call is in progress (drained, waiting for the acks) *)
}.

Definition set_u (s : rstate) (u : ustate) : rstate :=
  mkR u (z_sent s) (z_link s) (z_inc s) (z_status s) (z_waiters s) (z_queue s) (z_cut s) (z_removed s)
      (z_ledger s) (z_txinc s) (z_closereqs s) (z_closedev s) (z_resumes s) (z_avail s) (z_closing s).
Definition set_status (s : rstate) (st : sstatus) : rstate :=
  mkR (z_u s) (z_sent s) (z_link s) (z_inc s) st (z_waiters s) (z_queue s) (z_cut s) (z_removed s)
      (z_ledger s) (z_txinc s) (z_closereqs s) (z_closedev s) (z_resumes s) (z_avail s) (z_closing s).
Definition set_waiters (s : rstate) (w : list N) : rstate :=
  mkR (z_u s) (z_sent s) (z_link s) (z_inc s) (z_status s) w (z_queue s) (z_cut s) (z_removed s)
      (z_ledger s) (z_txinc s) (z_closereqs s) (z_closedev s) (z_resumes s) (z_avail s) (z_closing s).
Definition set_queue (s : rstate) (q : list (N * groups)) : rstate :=
  mkR (z_u s) (z_sent s) (z_link s) (z_inc s) (z_status s) (z_waiters s) q (z_cut s) (z_removed s)
      (z_ledger s) (z_txinc s) (z_closereqs s) (z_closedev s) (z_resumes s) (z_avail s) (z_closing s).
Definition set_sent (s : rstate) (st : sstate) : rstate :=
  mkR (z_u s) st (z_link s) (z_inc s) (z_status s) (z_waiters s) (z_queue s) (z_cut s) (z_removed s)
      (z_ledger s) (z_txinc s) (z_closereqs s) (z_closedev s) (z_resumes s) (z_avail s) (z_closing s).
(* link, incarnation, transmitted-in-incarnation, availability of a fresh connection *)
Definition set_conn (s : rstate) (l : lstate) (inc : N) (tx : list N) (av : bool) : rstate :=
  mkR (z_u s) (z_sent s) l inc (z_status s) (z_waiters s) (z_queue s) (z_cut s) (z_removed s)
      (z_ledger s) tx (z_closereqs s) (z_closedev s) (z_resumes s) av (z_closing s).
(* what the application and the broker are told at the end of the stream *)
Definition set_reports (s : rstate) (cr : list (N * N)) (ev : list bool) (n : N) : rstate :=
  mkR (z_u s) (z_sent s) (z_link s) (z_inc s) (z_status s) (z_waiters s) (z_queue s) (z_cut s) (z_removed s)
      (z_ledger s) (z_txinc s) cr ev n (z_avail s) (z_closing s).

Definition set_closing (s : rstate) (b : bool) : rstate :=
  mkR (z_u s) (z_sent s) (z_link s) (z_inc s) (z_status s) (z_waiters s) (z_queue s) (z_cut s) (z_removed s)
      (z_ledger s) (z_txinc s) (z_closereqs s) (z_closedev s) (z_resumes s) (z_avail s) b.

Definition mem (x : N) (l : list N) : bool := existsb (N.eqb x) l.
Definition del (x : N) (l : list N) : list N := filter (fun y => negb (y =? x)) l.
Definition ledger_has (seq : N) (l : list (N * N * groups)) : bool := existsb (fun e => snd (fst e) =? seq) l.

(* the transport write of chunk (seq, content g): what reaches the broker and whether a waiter waits *)
Definition transmit (s : rstate) (seq : N) (g : groups) : rstate :=
  match z_link s with
  | LUp => mkR (z_u s) (z_sent s) (z_link s) (z_inc s) (z_status s) (seq :: del seq (z_waiters s)) (z_queue s)
               (z_cut s) (z_removed s) (z_ledger s ++ [(z_inc s, seq, g)]) (seq :: z_txinc s)
               (z_closereqs s) (z_closedev s) (z_resumes s) (z_avail s) (z_closing s)
  | LDownSilent => set_waiters s (seq :: del seq (z_waiters s))     (* the write "succeeds" and vanishes *)
  | LDownLoud => s                                                  (* the write fails, the goroutine returns *)
  end.

(* flush cut one chunk: Store, then send *)
Definition on_chunk (cfg : rcfg) (s : rstate) (c : chunkT) : rstate :=
  let seq := fst (fst c) in
  let g := decode_chunk c in
  let s1 := mkR (z_u s) (st_store (c_keep cfg) the_sid seq g (z_sent s)) (z_link s) (z_inc s) (z_status s)
                (z_waiters s) (z_queue s) (z_cut s ++ [c]) (z_removed s) (z_ledger s) (z_txinc s)
                (z_closereqs s) (z_closedev s) (z_resumes s) (z_avail s) (z_closing s) in
  transmit s1 seq g.

(* a waiter obtains a value (a result, or nil on an ack timeout): Remove *)
Definition waiter_removes (s : rstate) (seq why : N) : rstate :=
  mkR (z_u s) (fst (st_remove the_sid seq (z_sent s))) (z_link s) (z_inc s) (z_status s) (del seq (z_waiters s))
      (z_queue s) (z_cut s) ((seq, why) :: z_removed s) (z_ledger s) (z_txinc s)
      (z_closereqs s) (z_closedev s) (z_resumes s) (z_avail s) (z_closing s).

(* one result of an ack: a well-formed broker acknowledges only what it received, over a live link *)
Definition on_result (s : rstate) (r : N * N) : rstate :=
  match z_link s with
  | LUp => if ledger_has (fst r) (z_ledger s) && mem (fst r) (z_waiters s) then waiter_removes s (fst r) 0 else s
  | _ => s
  end.

(* apply one operation of Model/Upstream to the stream part and process the chunk it cut *)
Definition exec_u (cfg : rcfg) (s : rstate) (o : uop) : rstate * N :=
  let r := ustep (z_u s) o in
  let s1 := fold_left (on_chunk cfg) (chunks_of (snd (fst r))) (set_u s (fst (fst r))) in
  (s1, snd r).

(* closeWithError whose close request cannot be delivered: the stream is cancelled and the closed
   event is delivered with the cause (err = a cause was given) *)
Definition close_err (s : rstate) (err : bool) : rstate :=
  set_reports (set_waiters (set_status s SClosedErr) []) (z_closereqs s) (z_closedev s ++ [err]) (z_resumes s).

Definition rstep (cfg : rcfg) (s : rstate) (e : revt) : rstate * N :=
  match e with
  | EApi o =>
      match z_status s with
      | SConnected =>
          match o with
          | Close => let r := exec_u cfg s Flush in (set_closing (set_status (fst r) SDraining) true, 0)
          | Results rs => let r := exec_u cfg s o in (fold_left on_result rs (fst r), snd r)
          | _ => exec_u cfg s o
          end
      | SDraining =>
          match o with
          | Write _ _ | Close => (s, 1)
          | Results rs => let r := exec_u cfg s o in (fold_left on_result rs (fst r), snd r)
          | _ => exec_u cfg s o
          end
      | SResuming =>
          match o with
          | Write _ _ | Flush => (s, 2)          (* blocks until a new run starts *)
          | Close => (close_err s false, 1)      (* close request on the dead connection fails; event without cause *)
          | _ => (s, 0)
          end
      | SClosedOk | SClosedErr =>
          match o with
          | Write _ _ | Flush | Close => (s, 1)
          | _ => (s, 0)
          end
      end
  | ECloseEnd =>
      (* the wait of a Close call in progress is over.  A disconnect while Close waits turns the status to
         Resuming and a successful resume to Connected (the watcher and resume() overwrite Draining): the
         call goes on waiting and closes on whatever connection the stream then holds *)
      if z_closing s then
        match z_status s with
        | SDraining | SConnected =>
            match z_link s with
            | LUp => (set_closing (set_reports (set_waiters (set_status s SClosedOk) [])
                                  (z_closereqs s ++ [(u_total (z_u s), u_seq (z_u s))]) (z_closedev s ++ [false]) (z_resumes s)) false, 0)
            | _ => (set_closing (close_err s false) false, 1)
            end
        | SResuming => (set_closing (close_err s false) false, 1)   (* the wait timed out during the outage *)
        | _ => (set_closing s false, 0)
        end
      else (s, 0)
  | EAckTimeout seq =>
      match z_status s with
      | SConnected | SDraining => if mem seq (z_waiters s) then (waiter_removes s seq 1, 0) else (s, 0)
      | _ => (s, 0)
      end
  | ELinkDown silent =>
      match z_link s with
      | LUp => (set_conn s (if silent then LDownSilent else LDownLoud) (z_inc s) (z_txinc s) (z_avail s), 0)
      | _ => (set_conn s (z_link s) (z_inc s) (z_txinc s) false, 0)     (* the fresh connection died before the resume *)
      end
  | EDetect =>
      match z_status s, z_link s with
      | (SConnected | SDraining), (LDownLoud | LDownSilent) =>
          let s1 := fst (exec_u cfg s Tick) in                                   (* final flush of flushLoop *)
          (set_queue (set_waiters (set_status s1 SResuming) []) [], 0)           (* every wait ends; nothing is removed *)
      | _, _ => (s, 0)
      end
  | ERedial =>
      match z_link s with
      | LUp => (s, 0)
      | l => (set_conn s l (z_inc s + 1) [] true, 0)
      end
  | EResume r =>
      match z_status s with
      | SResuming =>
          let s0 := set_reports s (z_closereqs s) (z_closedev s) (z_resumes s + 1) in
          match r, z_avail s with
          | ROk, true =>
              let s1 := set_conn (set_status s0 SConnected) LUp (z_inc s) [] false in
              if c_reliable cfg
              then (set_queue s1 (sort_map (stream_of the_sid (z_sent s))), 0)
              else (set_queue (set_sent s1 (st_clear (c_clear cfg) the_sid (z_sent s))) [], 0)
          | RConflict, true => (s0, 0)
          | RRefused, true =>
              (* closeWithError: close request with the totals on the new connection, closed event with the error *)
              (set_reports (set_waiters (set_status s0 SClosedErr) [])
                           (z_closereqs s ++ [(u_total (z_u s), u_seq (z_u s))]) (z_closedev s ++ [true]) (z_resumes s + 1), 0)
          | _, _ => (close_err s0 true, 0)      (* exchange cut: stream cancelled, closed event with the cause *)
          end
      | _ => (s, 0)
      end
  | EResend seq =>
      match z_status s with
      | SConnected | SDraining =>
          match lookup seq (z_queue s) with
          | Some g => (transmit (set_queue s (remove seq (z_queue s))) seq g, 0)
          | None => (s, 0)
          end
      | _ => (s, 0)
      end
  end.

Fixpoint rrun (cfg : rcfg) (s : rstate) (evs : list revt) : rstate * list N :=
  match evs with
  | [] => (s, [])
  | e :: evs' =>
      let r := rstep cfg s e in
      let r' := rrun cfg (fst r) evs' in
      (fst r', snd r :: snd r')
  end.

Definition rinit (pol : policy) (rev0 : lmap N) : rstate :=
  mkR (uinit pol rev0) [] LUp 0 SConnected [] [] [] [] [] [] [] [] 0 false false.

(* ------------------------------------------------------------------------------------------ *)
(* accepted writes of a history (events paired with their return codes) *)

Fixpoint racc_pts (id : N) (evs : list revt) (rets : list N) : list pt :=
  match evs, rets with
  | EApi (Write k ps) :: evs', r :: rets' => (if (k =? id) && (r =? 0) then ps else []) ++ racc_pts id evs' rets'
  | _ :: evs', _ :: rets' => racc_pts id evs' rets'
  | _, _ => []
  end.
Fixpoint racc_count (evs : list revt) (rets : list N) : N :=
  match evs, rets with
  | EApi (Write k ps) :: evs', r :: rets' => (if r =? 0 then N.of_nat (length ps) else 0) + racc_count evs' rets'
  | _ :: evs', _ :: rets' => racc_count evs' rets'
  | _, _ => 0
  end.
Fixpoint rids (evs : list revt) : list N :=
  match evs with
  | EApi (Write k _) :: evs' => k :: rids evs'
  | _ :: evs' => rids evs'
  | [] => []
  end.

(* points of data id [id] in decoded groups *)
Definition groups_pts (id : N) (g : groups) : list pt := buf_pts id g.

(* ------------------------------------------------------------------------------------------ *)
(* correspondence case: FINAL projected observables only *)

(* union ledger per sequence number: the distinct contents received over all incarnations *)
Fixpoint ledger_add (seq : N) (g : groups) (l : list (N * list groups)) : list (N * list groups) :=
  match l with
  | [] => [(seq, [g])]
  | (k, gs) :: l' =>
      if seq <? k then (seq, [g]) :: l
      else if seq =? k then (k, if existsb (group_list_eqb g) gs then gs else gs ++ [g]) :: l'
      else (k, gs) :: ledger_add seq g l'
  end.
Definition union_ledger (l : list (N * N * groups)) : list (N * list groups) :=
  fold_left (fun acc e => ledger_add (snd (fst e)) (snd e) acc) l [].

Definition subset_g (a b : list groups) : bool := forallb (fun x => existsb (group_list_eqb x) b) a.
Definition contents_eqb (a b : N * list groups) : bool :=
  (fst a =? fst b) && subset_g (snd a) (snd b) && subset_g (snd b) (snd a).

Definition status_code (st : sstatus) : N :=
  match st with SConnected => 0 | SDraining => 1 | SResuming => 2 | SClosedOk => 3 | SClosedErr => 4 end.

Record rs_case := mkRsCase {
  rc_keep : bool;                            (* payload-keeping storage injected (the default kind) *)
  rc_reliable : bool;
  rc_pol : policy;
  rc_rev0 : list (N * N);
  rc_evs : list revt;
  (* observations on the real library *)
  rc_rets : list N;                          (* per event: API return code (0 nil, 1 error, 2 blocked until resume), 0 otherwise *)
  rc_ledger : list (N * list groups);        (* union ledger at the broker, by sequence number *)
  rc_stored : list N;                        (* final List of the stream in the sent storage *)
  rc_final : snapshot;                       (* final Upstream.State() *)
  rc_closereqs : list (N * N);
  rc_closedev : list bool;                   (* closed events seen: carried an error? *)
  rc_closed : bool;                          (* a probe write after the end fails with the stream-closed error *)
  rc_nresume : N;                            (* resume requests seen by the broker *)
  rc_resume_ids_ok : bool;                   (* each of them carried the original stream id *)
  rc_unacked_at_down : list (N * list N);    (* (incarnation that died, seqs stored at that moment) *)
  rc_rx_by_inc : list (N * list N)           (* (incarnation, seqs received in it) *)
}.

Definition rs_cfg (c : rs_case) : rcfg := mkCfg (rc_keep c) (rc_reliable c) clear_of_code.
Definition rs_model (c : rs_case) : rstate * list N := rrun (rs_cfg c) (rinit (rc_pol c) (rc_rev0 c)) (rc_evs c).

Definition is_closed (st : sstatus) : bool := match st with SClosedOk | SClosedErr => true | _ => false end.

Definition rs_corr (c : rs_case) : bool :=
  let r := rs_model c in
  let s := fst r in
  list_beq _ N.eqb (snd r) (rc_rets c)
  && list_beq _ contents_eqb (union_ledger (z_ledger s)) (rc_ledger c)
  && list_beq _ N.eqb (map fst (sort_map (stream_of the_sid (z_sent s)))) (rc_stored c)
  && snap_eqb (snap (z_u s)) (rc_final c)
  && list_beq _ pairN_eqb (z_closereqs s) (rc_closereqs c)
  && list_beq _ Bool.eqb (z_closedev s) (rc_closedev c)
  && Bool.eqb (is_closed (z_status s)) (rc_closed c)
  && (z_resumes s =? rc_nresume c).

(* --- C02 on the observation alone --- *)

Definition first_content (e : N * list groups) : groups := match snd e with g :: _ => g | [] => [] end.
Definition ledger_pts (id : N) (l : list (N * list groups)) : list pt :=
  concat (map (fun e => groups_pts id (first_content e)) l).
Fixpoint lseqs_from (n : N) (l : list (N * list groups)) : bool :=
  match l with [] => true | e :: l' => (fst e =? n) && lseqs_from (n + 1) l' end.
Definition groups_count (g : groups) : N := buf_count g.

(* a sequence number never carries two different contents *)
Definition c02_functional (c : rs_case) : bool :=
  forallb (fun e => N.of_nat (length (snd e)) =? 1) (rc_ledger c).

(* reported closed to the application: writes fail with the stream-closed error AND a closed event
   carrying an error was delivered *)
Definition reported_closed (c : rs_case) : bool := rc_closed c && existsb (fun x => x) (rc_closedev c).

(* from the history alone: is the stream on a live connection at the end? *)
Fixpoint ends_up (up : bool) (evs : list revt) : bool :=
  match evs with
  | [] => up
  | ELinkDown _ :: r => ends_up false r
  | EResume ROk :: r => ends_up true r
  | _ :: r => ends_up up r
  end.

(* closed by a successful Close: a closed event without error and a close request at the broker *)
Definition closed_ok (c : rs_case) : bool :=
  existsb negb (rc_closedev c) && negb (N.of_nat (length (rc_closereqs c)) =? 0).

(* everything accepted is in the union ledger (first content per sequence number, in order) or in the buffer *)
Definition all_delivered (c : rs_case) : bool :=
  lseqs_from 1 (rc_ledger c)
  && (N.of_nat (length (rc_ledger c)) =? fst (fst (rc_final c)))
  && forallb (fun id => pts_eqb (ledger_pts id (rc_ledger c) ++ buf_pts id (snd (rc_final c)))
                                (racc_pts id (rc_evs c) (rc_rets c))) (rids (rc_evs c)).

Definition c02_noloss (c : rs_case) : bool :=
  if reported_closed c then true
  else if closed_ok c then
    (* Close succeeded: it must have waited for every stored chunk (resend queue included) *)
    all_delivered c && match rc_stored c with [] => true | _ => false end
  else
    match rc_stored c with
    | [] => all_delivered c      (* settled: everything cut has been acknowledged *)
    | _ =>
        (* chunks left in the storage of an open stream on a live connection after the broker has
           acknowledged everything it received: stored, never retransmitted - lost *)
        negb (ends_up true (rc_evs c)) || rc_closed c
    end.

Definition timed_out (evs : list revt) : list N :=
  concat (map (fun e => match e with EAckTimeout q => [q] | _ => [] end) evs).

(* chunks stored (unacknowledged) when incarnation k died are received again in a later one *)
Definition c02_retransmit_ok (c : rs_case) : bool :=
  if reported_closed c then true
  else
    match rc_stored c with
    | [] => forallb (fun d => forallb (fun q =>
              mem q (timed_out (rc_evs c))        (* removed by a configured ack timeout: by design *)
              || existsb (fun rx => (fst d <? fst rx) && mem q (snd rx)) (rc_rx_by_inc c)) (snd d)) (rc_unacked_at_down c)
    | _ => true
    end.

Definition c02_totals_ok (c : rs_case) : bool :=
  if existsb negb (rc_closedev c) && negb (N.of_nat (length (rc_closereqs c)) =? 0)   (* closed by a successful Close *)
  then list_beq _ pairN_eqb (rc_closereqs c)
         [(racc_count (rc_evs c) (rc_rets c), N.of_nat (length (rc_ledger c)))]
  else true.

(* a stream that refuses writes with the stream-closed error has told the application: some closed
   event was delivered (the former code delivered none when the resume exchange was cut: F19) *)
Definition c02_closed_reported (c : rs_case) : bool :=
  negb (rc_closed c) || negb (N.of_nat (length (rc_closedev c)) =? 0).

Definition c02_ok (c : rs_case) : bool :=
  if rc_reliable c then
    c02_functional c && c02_noloss c && c02_retransmit_ok c && c02_totals_ok c && rc_resume_ids_ok c
    && c02_closed_reported c
  else true.

Definition rs_judge (c : rs_case) : N :=
  (if rs_corr c then 0 else 1) + (if c02_ok c then 0 else 2).

(* C08 part B - the blocking protocols of the library as small processes with guard sets.

   A call is a finite tree [proc]: it returns ([Ret]), waits in a select ([Alt g k rest] chains
   ending in [Block]; a chain ending in another process has a `default:` branch), takes or releases
   a (reader/writer) mutex ([Acq]/[Rel]; Go mutexes are not reentrant: an [Acq] while holding is
   never enabled), raises or clears a level signal ([SetF]) or branches on one ([IfF]).
   A guard is a clock deadline ([GTime d]: context deadline, close timeout, ack timeout - absolute
   time on the model clock, milliseconds) or a level signal ([GFlag f]: a reply sits in its
   channel, a context is done, the connection status has a value, a cond predicate holds).
   A sync.Cond loop `for !P { cond.Wait() }` whose every input has a waker is the level guard P;
   an input WITHOUT a waker is simply not in the guard set (that is how F5/F7-style defects show).

   The system is a list of processes sharing flags and locks.  All nondeterminism is in the event
   list: clock ticks, the environment (broker, dispatcher, timers, other goroutines) raising and
   clearing flags, the link dying, new calls being issued ([ESpawn]); each event carries the choice
   that Go's select makes among ready alternatives.  After every event every process runs until
   it blocks ([settle]).  Keepalive detection is a rule of the world: when the link has been dead
   since t0, the tick that reaches t0 + ping interval + ping timeout raises [FWClosed] (the bound
   itself is C15's theorem).  Transport writes do not block (DESIGN: stated assumption).
   No proofs here (Proofs/BlockingProofs.v). *)
From Coq Require Import List NArith Bool Arith.
Import ListNotations.
Open Scope N_scope.

Definition flag := N.
Inductive outcome := ONil | OCtx | OConnClosed | OStreamClosed | OOther | OBlocked | OPanic.
Inductive lmode := LR | LW.
Inductive guard := GTime (d : N) | GFlag (f : flag).

Inductive proc :=
| Ret (r : outcome)
| Block                                        (* end of a select's alternatives / select {} *)
| Alt (g : guard) (k : proc) (rest : proc)     (* case g: k; further alternatives: rest *)
| Acq (m : N) (md : lmode) (k : proc)
| Rel (m : N) (k : proc)
| SetF (f : flag) (v : bool) (k : proc)
| IfF (f : flag) (pt pe : proc).

Definition outcome_eqb (a b : outcome) : bool :=
  match a, b with
  | ONil, ONil | OCtx, OCtx | OConnClosed, OConnClosed | OStreamClosed, OStreamClosed
  | OOther, OOther | OBlocked, OBlocked | OPanic, OPanic => true
  | _, _ => false
  end.

(* one process: remaining code, the lock it holds (no nesting in the modelled protocols), and the
   clock value at which it returned *)
Record pst := mkP { code : proc; held : option (N * lmode); ret_at : option N }.

Record world := mkW {
  now : N;
  flags : list flag;            (* raised flags *)
  dead_since : option N;        (* the link died at this time and nothing has noticed yet *)
  ka : N;                       (* ping interval + ping timeout *)
  procs : list pst
}.

Definition FWClosed : flag := 0.      (* wire.ClientConn ctx done: Close, keepalive timeout *)

Definition fl_mem (f : flag) (fs : list flag) : bool := existsb (N.eqb f) fs.
Definition fl_set (f : flag) (v : bool) (fs : list flag) : list flag :=
  if v then (if fl_mem f fs then fs else f :: fs) else filter (fun x => negb (N.eqb f x)) fs.

Definition guard_on (nw : N) (fs : list flag) (g : guard) : bool :=
  match g with GTime d => d <=? nw | GFlag f => fl_mem f fs end.

(* continuations of the alternatives that are ready (a chain that does not end in Block has a default) *)
Fixpoint ready (nw : N) (fs : list flag) (p : proc) : list proc :=
  match p with
  | Alt g k rest => (if guard_on nw fs g then [k] else []) ++ ready nw fs rest
  | Block => []
  | other => [other]
  end.

Definition is_chain (p : proc) : bool := match p with Alt _ _ _ | Block => true | _ => false end.

(* may (m, md) be taken, given what the processes hold?  W: nobody holds m; R: nobody holds it in W *)
Definition lock_ok (m : N) (md : lmode) (ps : list pst) : bool :=
  forallb (fun q => match held q with
                    | Some (m', md') => negb (N.eqb m' m) || match md, md' with LR, LR => true | _, _ => false end
                    | None => true
                    end) ps.

Definition enabled (w : world) (p : pst) : bool :=
  match code p with
  | Ret _ => false
  | Block => false
  | Alt _ _ _ => negb (Nat.eqb (List.length (ready (now w) (flags w) (code p))) 0)
  | Acq m md _ => match held p with None => lock_ok m md (procs w) | Some _ => false end
  | Rel _ _ | SetF _ _ _ | IfF _ _ _ => true
  end.

Definition mark (nw : N) (c : proc) (h : option (N * lmode)) (r : option N) : pst :=
  mkP c h (match c, r with Ret _, None => Some nw | _, _ => r end).

(* one step of process p (assumed enabled); returns the new process and the new flags *)
Definition fire (w : world) (c : nat) (p : pst) : pst * list flag :=
  match code p with
  | Alt _ _ _ =>
      let rs := ready (now w) (flags w) (code p) in
      (mark (now w) (nth (c mod List.length rs)%nat rs Block) (held p) (ret_at p), flags w)
  | Acq m md k => (mark (now w) k (Some (m, md)) (ret_at p), flags w)
  | Rel _ k => (mark (now w) k None (ret_at p), flags w)
  | SetF f v k => (mark (now w) k (held p) (ret_at p), fl_set f v (flags w))
  | IfF f a b => (mark (now w) (if fl_mem f (flags w) then a else b) (held p) (ret_at p), flags w)
  | _ => (p, flags w)
  end.

Fixpoint find_enabled (w : world) (ps : list pst) (i : nat) : option nat :=
  match ps with
  | [] => None
  | p :: r => if enabled w p then Some i else find_enabled w r (S i)
  end.

Fixpoint set_nth {A} (n : nat) (x : A) (l : list A) : list A :=
  match l, n with
  | [], _ => []
  | _ :: l', O => x :: l'
  | y :: l', S n' => y :: set_nth n' x l'
  end.

Definition dummy : pst := mkP Block None None.

Definition fire_at (w : world) (c : nat) (i : nat) : world :=
  let pf := fire w c (nth i (procs w) dummy) in
  mkW (now w) (snd pf) (dead_since w) (ka w) (set_nth i (fst pf) (procs w)).

Fixpoint psize (p : proc) : nat :=
  match p with
  | Ret _ | Block => 1
  | Alt _ k rest => S (psize k + psize rest)
  | Acq _ _ k | Rel _ k | SetF _ _ k => S (psize k)
  | IfF _ a b => S (psize a + psize b)
  end.

Definition total_size (ps : list pst) : nat := fold_right (fun p n => (psize (code p) + n)%nat) 0%nat ps.

Fixpoint settle (fuel : nat) (c : nat) (w : world) : world :=
  match fuel with
  | O => w
  | S n => match find_enabled w (procs w) 0 with
           | Some i => settle n c (fire_at w c i)
           | None => w
           end
  end.

Inductive event :=
| ETick (t : N)
| ESet (f : flag) (v : bool)
| ELinkDies
| ELinkUp                      (* a new wire connection after a redial *)
| ESpawn (p : proc).

Definition apply_event (e : event) (w : world) : world :=
  match e with
  | ETick t =>
      let nw := N.max (now w) t in
      let fs := match dead_since w with
                | Some t0 => if t0 + ka w <=? nw then fl_set FWClosed true (flags w) else flags w
                | None => flags w
                end in
      mkW nw fs (dead_since w) (ka w) (procs w)
  | ESet f v => mkW (now w) (fl_set f v (flags w)) (dead_since w) (ka w) (procs w)
  | ELinkDies => mkW (now w) (flags w) (match dead_since w with None => Some (now w) | s => s end) (ka w) (procs w)
  | ELinkUp => mkW (now w) (fl_set FWClosed false (flags w)) None (ka w) (procs w)
  | ESpawn p => mkW (now w) (flags w) (dead_since w) (ka w) (procs w ++ [mkP p None None])
  end.

Definition step (w : world) (ec : event * nat) : world :=
  let w' := apply_event (fst ec) w in
  settle (S (total_size (procs w'))) (snd ec) w'.

Fixpoint run (w : world) (evs : list (event * nat)) : world :=
  match evs with
  | [] => w
  | e :: r => run (step w e) r
  end.

Definition init (kaval : N) (fs : list flag) (ps : list proc) : world :=
  let w := mkW 0 fs None kaval (map (fun p => mkP p None None) ps) in
  settle (S (total_size (procs w))) 0 w.

Definition returned (p : pst) : bool := match code p with Ret _ => true | _ => false end.
Definition result (p : pst) : outcome := match code p with Ret r => r | _ => OBlocked end.

(* ---------- the conditions under which the theorems hold ---------- *)

Definition time_le (D : N) (g : guard) : bool := match g with GTime d => d <=? D | GFlag _ => false end.

(* [wf D h p]: with lock state h, on every path of p: every blocking select has a clock guard
   <= D as its last alternative, no lock is taken while one is held, a release matches the held
   lock, and the process returns holding nothing *)
Fixpoint wf (D : N) (h : option (N * lmode)) (p : proc) : bool :=
  match p with
  | Ret _ => match h with None => true | Some _ => false end
  | Block => false
  | Alt g k rest => wf D h k && match rest with Block => time_le D g | _ => wf D h rest end
  | Acq m md k => match h with None => wf D (Some (m, md)) k | Some _ => false end
  | Rel m k => match h with Some (m', _) => N.eqb m m' && wf D None k | None => false end
  | SetF _ _ k => wf D h k
  | IfF _ a b => wf D h a && wf D h b
  end.

(* [lwf FL h p]: lock discipline only - as above without the clock requirement, and: no select
   is entered while a lock of the class FL ("fast" locks: the dispatcher's tables, the stream
   lock) is held *)
Definition holds_fast (FL : N -> bool) (h : option (N * lmode)) : bool :=
  match h with Some (m, _) => FL m | None => false end.

Fixpoint lwf (FL : N -> bool) (h : option (N * lmode)) (p : proc) : bool :=
  match p with
  | Ret _ => match h with None => true | Some _ => false end
  | Block => negb (holds_fast FL h)
  | Alt g k rest => negb (holds_fast FL h) && lwf FL h k && lwf FL h rest
  | Acq m md k => match h with None => lwf FL (Some (m, md)) k | Some _ => false end
  | Rel m k => match h with Some (m', _) => N.eqb m m' && lwf FL None k | None => false end
  | SetF _ _ k => lwf FL h k
  | IfF _ a b => lwf FL h a && lwf FL h b
  end.

(* a dispatcher step: no select at all, only fast locks *)
Fixpoint nowait (FL : N -> bool) (p : proc) : bool :=
  match p with
  | Ret _ => true
  | Block | Alt _ _ _ => false
  | Acq m _ k => FL m && nowait FL k
  | Rel _ k | SetF _ _ k => nowait FL k
  | IfF _ a b => nowait FL a && nowait FL b
  end.

Definition ev_ok (P : proc -> bool) (ec : event * nat) : bool :=
  match fst ec with ESpawn p => P p | _ => true end.

(* all clock guards of the select a process is waiting in *)
Fixpoint chain_times (p : proc) : list N :=
  match p with
  | Alt (GTime d) _ rest => d :: chain_times rest
  | Alt _ _ rest => chain_times rest
  | _ => []
  end.
Fixpoint chain_flags (p : proc) : list flag :=
  match p with
  | Alt (GFlag f) _ rest => f :: chain_flags rest
  | Alt _ _ rest => chain_flags rest
  | _ => []
  end.

(* ================= the protocols, transliterated ================= *)

(* flags *)
Definition FStConnected : flag := 1.
Definition FStReconnecting : flag := 2.
Definition FStClosed : flag := 3.
Definition FSctx : flag := 4.          (* stream ctx done *)
Definition FAcked : flag := 5.         (* sendBuffer empty and sent storage empty *)
Definition FFlushReady : flag := 6.    (* flushLoop receives from explicitlyFlushCh *)
Definition FFlushRes : flag := 7.      (* flushLoop offers the flush result *)
Definition FFinalAck : flag := 8.      (* finalAckFlushed closed *)
Definition FDpAvail : flag := 9.       (* dataPointsCh non-empty *)
Definition FMetaAvail : flag := 10.    (* metadataCh non-empty *)
Definition FCallAck : flag := 11.      (* the call's ack channel holds the ack *)
Definition FReplyCall : flag := 12.    (* the call's reply channel holds the reply *)
Definition FRunCtx : flag := 13.       (* upstream run ctx done *)
Definition FWaiterRecv : flag := 14.   (* the chunk's ack waiter is receiving on its result channel *)
Definition FWaiterEntry : flag := 15.  (* upstreamChunkResultChs has an entry for the sequence number *)
Definition FAliasSub : flag := 16.     (* downstreams.metadata has the stream alias *)
Definition FNodeSub : flag := 17.      (* ... and the source node *)
Definition FDraining : flag := 18.
Definition FWriteRecv : flag := 19.    (* flushLoop receives from dpgCh *)
Definition FReply (id : N) : flag := 100 + id.   (* replyCh[id] holds the reply *)

(* locks *)
Definition LWire : N := 0.     (* Conn.wireConnMu *)
Definition LUmu : N := 1.      (* Upstream.mu *)
Definition LDmu : N := 2.      (* wire clientDownstreams.mu *)
Definition LUps : N := 3.      (* wire clientUpstreams.mu *)
Definition LReply : N := 4.    (* wire ClientConn.mu (replyCh) *)
Definition fast_lock (m : N) : bool := negb (N.eqb m LWire).

Definition tg (ctx : option N) (k : proc) : proc :=
  match ctx with Some d => Alt (GTime d) k Block | None => Block end.

(* wire/client_conn.go sendRequest: register the reply channel (under ClientConn.mu, a leaf lock
   whose critical sections neither wait nor lock: not modelled), write (non-blocking), then
   select {ctx.Done | conn ctx.Done | reply} *)
Definition sendRequest (ctx : option N) (id : N) (k : outcome -> proc) : proc :=
  Alt (GFlag (FReply id)) (k ONil) (Alt (GFlag FWClosed) (k OConnClosed) (tg ctx (k OCtx))).

(* iscp/state.go waitUntil without a hook (WaitUntil): cond loop on the status, the waker
   goroutine covers ctx *)
Definition waitUntil (ctx : option N) (target : flag) (k : outcome -> proc) : proc :=
  Alt (GFlag target) (k ONil) (tg ctx (k OCtx)).
(* WaitUntilOrClosed AS IT IS (F5 repaired, 9b8bda8): the hook sees the CURRENT status, so a closed
   connection ends the wait with the connection-closed error *)
Definition waitUntilOrClosed (ctx : option N) (target : flag) (k : outcome -> proc) : proc :=
  Alt (GFlag target) (k ONil) (Alt (GFlag FStClosed) (k OConnClosed) (tg ctx (k OCtx))).
(* the former code (F5): hooker(status) got the TARGET status: no alternative for "closed" *)
Definition waitUntilOrClosed_F5 := waitUntil.

Definition set_status (s : flag) (k : proc) : proc :=
  SetF FStConnected (N.eqb s FStConnected) (SetF FStReconnecting (N.eqb s FStReconnecting)
    (SetF FStClosed (N.eqb s FStClosed) k)).

(* iscp/conn.go send: wait until connected, run f, on ErrConnectionClosed flag the connection as
   reconnecting and retry (n = number of retries modelled; the theorems hold for every n) *)
Fixpoint send_with (wu : option N -> flag -> (outcome -> proc) -> proc)
                   (n : nat) (ctx : option N) (f : (outcome -> proc) -> proc) : proc :=
  wu ctx FStConnected (fun r =>
    match r with
    | ONil => f (fun r' =>
        match r' with
        | OConnClosed =>
            match n with
            | O => Ret OConnClosed
            | S n' => IfF FStClosed (Ret OConnClosed) (set_status FStReconnecting (send_with wu n' ctx f))
            end
        | _ => Ret r'
        end)
    | _ => Ret r
    end).
Definition send := send_with waitUntilOrClosed.
Definition send_F5 := send_with waitUntilOrClosed_F5.

(* SendMetadata / OpenUpstream: the whole round trip happens with Conn.wireConnMu held.
   ids n, n-1, ... : every retry uses a fresh request id *)
Fixpoint connRequest_with wu (n : nat) (ctx : option N) (id : N) : proc :=
  wu ctx FStConnected (fun r =>
    match r with
    | ONil => Acq LWire LW (sendRequest ctx id (fun r' => Rel LWire
        match r' with
        | OConnClosed =>
            match n with
            | O => Ret OConnClosed
            | S n' => IfF FStClosed (Ret OConnClosed)
                        (set_status FStReconnecting (connRequest_with wu n' ctx (id + 1)))
            end
        | _ => Ret r'
        end))
    | _ => Ret r
    end).
Definition connRequest := connRequest_with waitUntilOrClosed.
Definition connRequest_F5 := connRequest_with waitUntilOrClosed_F5.

(* OpenDownstream: subscriptions under wireConnMu + downstreams.mu (short), the open request
   WITHOUT wireConnMu, then the alias table update under downstreams.mu *)
Fixpoint openDownstream (n : nat) (ctx : option N) (id : N) : proc :=
  waitUntilOrClosed ctx FStConnected (fun r =>
    match r with
    | ONil => Acq LDmu LW (Rel LDmu (sendRequest ctx id (fun r' =>
        match r' with
        | ONil => Acq LDmu LW (Rel LDmu (Ret ONil))
        | OConnClosed =>
            match n with
            | O => Ret OConnClosed
            | S n' => IfF FStClosed (Ret OConnClosed)
                        (set_status FStReconnecting (openDownstream n' ctx (id + 1)))
            end
        | _ => Ret r'
        end)))
    | _ => Ret r
    end).

(* Upstream.WriteDataPoints *)
Definition upWrite (ctx : option N) : proc :=
  IfF FSctx (Ret OStreamClosed) (IfF FDraining (Ret OOther)
    (Alt (GFlag FWriteRecv) (Ret ONil) (Alt (GFlag FSctx) (Ret OStreamClosed) (tg ctx (Ret OCtx))))).

(* Upstream.Flush: rendezvous with flushLoop twice *)
Definition upFlush (ctx : option N) (k : outcome -> proc) : proc :=
  IfF FSctx (k OStreamClosed)
    (Alt (GFlag FFlushReady)
         (Alt (GFlag FFlushRes) (k ONil) (Alt (GFlag FSctx) (k OStreamClosed) (tg ctx (k OCtx))))
         (Alt (GFlag FSctx) (k OStreamClosed) (tg ctx (k OCtx)))).

(* Upstream.closeWithError: State() under the stream lock, then the close request straight on
   the stream's wire connection (no retry wrapper); defer u.cancel() *)
Definition upCloseRequest (ctx : option N) (id : N) : proc :=
  IfF FSctx (Ret ONil)
    (Acq LUmu LR (Rel LUmu (sendRequest ctx id (fun r => SetF FSctx true (Ret r))))).

(* Upstream.Close as it is now (F7 fixed): flush, then the drain loop on receivedAck, woken by an
   ack, by the caller's ctx and by stream ctx + close timeout (cto: absolute), then the request *)
Definition upClose (ctx : option N) (cto : N) (id : N) : proc :=
  SetF FDraining true (upFlush ctx (fun _ =>
    let next := upCloseRequest ctx id in
    Alt (GFlag FAcked) next (Alt (GFlag FSctx) next (Alt (GTime cto) next (tg ctx next))))).

(* the drain loop before the F7 fix: cond.Wait woken by an ack only *)
Definition upClose_F7 (ctx : option N) (cto : N) (id : N) : proc :=
  SetF FDraining true (upFlush ctx (fun _ => Alt (GFlag FAcked) (upCloseRequest ctx id) Block)).

(* Downstream.Close *)
Definition downClose (ctx : option N) (id : N) : proc :=
  IfF FSctx (Ret ONil)
    (SetF FDraining true
      (let next := sendRequest ctx id (fun r =>
                     match r with
                     | ONil => Acq LDmu LW (Rel LDmu (SetF FSctx true (Ret ONil)))
                     | _ => SetF FSctx true (Ret r)
                     end) in
       Alt (GFlag FFinalAck) next (Alt (GFlag FSctx) next (tg ctx next)))).

(* Downstream.ReadDataPoints / ReadMetadata *)
Definition readDP (ctx : option N) : proc :=
  Alt (GFlag FDpAvail) (Ret ONil) (Alt (GFlag FSctx) (Ret OStreamClosed) (tg ctx (Ret OCtx))).
Definition readMeta (ctx : option N) : proc :=
  Alt (GFlag FMetaAvail) (Ret ONil) (Alt (GFlag FSctx) (Ret OStreamClosed) (tg ctx (Ret OCtx))).

(* iscp/e2e.go call: the context is derived with WithCloseStatus (done when the status becomes
   Closed), so every wait also has the closed alternative; the write happens under wireConnMu *)
Definition e2eCall (ctx : option N) (k : proc) : proc :=
  waitUntilOrClosed ctx FStConnected (fun r =>
    match r with
    | ONil => Acq LWire LW (Rel LWire
                (Alt (GFlag FCallAck) k (Alt (GFlag FStClosed) (Ret OConnClosed) (tg ctx (Ret OCtx)))))
    | _ => Ret r
    end).
Definition e2eCallAndWait (ctx : option N) : proc :=
  e2eCall ctx (Alt (GFlag FReplyCall) (Ret ONil) (Alt (GFlag FStClosed) (Ret OConnClosed) (tg ctx (Ret OCtx)))).

(* Conn.Close: swap the status, then Disconnect + wire Close under wireConnMu.  Its context is
   not a guard of anything: it waits for whoever holds wireConnMu *)
Definition connClose : proc :=
  set_status FStClosed (Acq LWire LW (SetF FWClosed true (Rel LWire (Ret ONil)))).

(* Conn.reconnect: takes wireConnMu, flags the connection as reconnecting, closes the old wire
   connection and redials in retry.Do - dial, on failure `return c.state.Is(connStatusClosed)`,
   back-off sleep, again - with wireConnMu HELD all the time.  The polling loop is the level guard
   on the Closed status (latency: at most one dial attempt plus one back-off sleep); a successful
   dial is the signal FDialOk.  It waits while holding wireConnMu: not wf, allowed by lwf
   (wireConnMu is not a fast lock) - everybody who wants wireConnMu depends on the loop's exit. *)
Definition FDialOk : flag := 20.
Definition reconnectHold : proc :=
  Acq LWire LW (IfF FStClosed (Rel LWire (Ret OConnClosed))
    (set_status FStReconnecting (SetF FWClosed true
      (Alt (GFlag FStClosed) (Rel LWire (Ret OConnClosed))
        (Alt (GFlag FDialOk)
             (IfF FStClosed (Rel LWire (Ret OConnClosed))                     (* CompareAndSwapNewGeneration fails: discard *)
                            (SetF FWClosed false (set_status FStConnected (Rel LWire (Ret ONil)))))
             Block))))).
(* Conn.Close with the two steps in the other order (lock first, then the status swap): the redial
   loop can then never see Closed *)
Definition connClose_lockfirst : proc :=
  Acq LWire LW (set_status FStClosed (SetF FWClosed true (Rel LWire (Ret ONil)))).

(* Upstream.Close whose drain loop spends until tL (absolute) inside sent.List / waiting for u.mu
   between its deadline check and cond.Wait(): the wakers take receivedAck.L, which the waiter
   holds in that span, so their Broadcast is delivered once Wait() has released it: after tL the
   wait is the same level-guarded select as in upClose.  (A waker that Broadcasts WITHOUT the lock
   in that span wakes nobody: the clock guards then are not guards at all - that is upClose_F7.) *)
Definition upClose_slow (ctx : option N) (cto tL : N) (id : N) : proc :=
  SetF FDraining true (upFlush ctx (fun _ =>
    let next := upCloseRequest ctx id in
    Alt (GTime tL)
        (Alt (GFlag FAcked) next (Alt (GFlag FSctx) next (Alt (GTime cto) next (tg ctx next))))
        Block)).
Definition upClose_barewake := upClose_F7.

(* ---- the explicit-flush handshake, both sides (iscp/upstream.go Flush / flushLoop) ----
   Unbuffered rendezvous as flags: FFlushReady = the loop is at its select, FHanded = a caller has
   handed over its request (with its remoteDone channel), FFlushRes = the loop offers the result,
   FTaken = the caller took it, FRemoteDone = the caller's derived context is done (defer cancel():
   raised on EVERY exit of Flush).  [flushServe] is one turn of the loop for an explicit flush; it
   "returns" when the loop is back at its select. *)
Definition FHanded : flag := 21.
Definition FTaken : flag := 22.
Definition FRemoteDone : flag := 23.
Definition flushServe_with (remoteDone : bool) : proc :=
  SetF FFlushReady true
    (Alt (GFlag FHanded)
         (SetF FFlushReady false (Acq LUmu LW (Rel LUmu                  (* u.flush *)
            (SetF FFlushRes true
               (let back := SetF FFlushRes false (Ret ONil) in
                Alt (GFlag FTaken) back
                    (if remoteDone then Alt (GFlag FRemoteDone) back (Alt (GFlag FRunCtx) back Block)
                     else Alt (GFlag FRunCtx) back Block))))))
         (Alt (GFlag FRunCtx) (SetF FFlushReady false (Ret ONil)) Block)).
Definition flushServe := flushServe_with true.            (* AS IT IS: select {result <- | <-remoteDone | <-ctx.Done()} *)
Definition flushServe_noRemoteDone := flushServe_with false.   (* without the abandoned-caller arm *)
Definition upFlushCaller (ctx : option N) : proc :=
  let leave r := SetF FRemoteDone true (Ret r) in
  IfF FSctx (leave OStreamClosed)
    (Alt (GFlag FFlushReady)
         (SetF FHanded true
            (Alt (GFlag FFlushRes) (SetF FTaken true (leave ONil))
                 (Alt (GFlag FSctx) (leave OStreamClosed) (tg ctx (leave OCtx)))))
         (Alt (GFlag FSctx) (leave OStreamClosed) (tg ctx (leave OCtx)))).

(* ---- the wire connection's single dispatch goroutine, sequentially (continuation k = the next
   message): a DownstreamCall goes through the 8-slot wire queue to Conn.readDownstreamCallLoop,
   which puts it into the 1024-slot inbox WITHOUT waiting (select default: discarded when full) *)
Definition FInboxRoom : flag := 24.
Definition dispatchCallK (k : proc) : proc := k.
(* ... with a wait for room instead: the consumer of the wire queue stops, the queue fills, the
   dispatch goroutine stops *)
Definition dispatchCallK_wait (k : proc) : proc := Alt (GFlag FInboxRoom) k (Alt (GFlag FRunCtx) k Block).
Definition dispatchReplyK (id : N) (k : proc) : proc := SetF (FReply id) true k.

(* Upstream.processResult AS IT IS (F13 repaired, 611d2de): looks the waiter up and deletes the
   entry under the stream lock, releases, then sends into the waiter's ONE-SLOT channel, which
   receives at most this one value (the entry is gone): the send never waits *)
Definition processResult : proc :=
  Acq LUmu LW (IfF FWaiterEntry (SetF FWaiterEntry false (Rel LUmu (Ret ONil))) (Rel LUmu (Ret ONil))).
(* the former code (F13): offers the result to the waiter on an unbuffered channel while holding
   the stream lock; the other alternatives are the two contexts only *)
Definition processResult_F13 : proc :=
  Acq LUmu LW (IfF FWaiterEntry
    (let k := SetF FWaiterEntry false (Rel LUmu (Ret ONil)) in
     Alt (GFlag FWaiterRecv) k (Alt (GFlag FRunCtx) k (Alt (GFlag FSctx) k Block)))
    (Rel LUmu (Ret ONil))).
Definition upState : proc := Acq LUmu LR (Rel LUmu (Ret ONil)).
(* flushLoop's flush: takes the stream lock *)
Definition upFlushInternal : proc := Acq LUmu LW (Rel LUmu (Ret ONil)).

(* dispatcher steps: route one received message (non-blocking send into a subscriber channel
   under the table's read lock).  readDownstreamMetadataLoop AS IT IS (F6 repaired, 900bd4c): the
   read lock is released on every path *)
Definition dispatchMeta : proc :=
  Acq LDmu LR (IfF FAliasSub (IfF FNodeSub (Rel LDmu (Ret ONil)) (Rel LDmu (Ret ONil))) (Rel LDmu (Ret ONil))).
(* the former code (F6): `continue` with the read lock held when the stream alias is subscribed
   but the source node is not *)
Definition dispatchMeta_F6 : proc :=
  Acq LDmu LR (IfF FAliasSub (IfF FNodeSub (Rel LDmu (Ret ONil)) (Ret ONil)) (Rel LDmu (Ret ONil))).
Definition dispatchChunk : proc := Acq LDmu LR (Rel LDmu (Ret ONil)).
Definition dispatchAck : proc := Acq LUps LR (Rel LUps (Ret ONil)).
Definition dispatchReply (id : N) : proc := SetF (FReply id) true (Ret ONil).

(* ================= scenarios of the harness (h-block) ================= *)

Inductive scen :=
| ScOpenUp | ScOpenDown | ScWrite | ScFlush | ScRead | ScReadMeta | ScMetadata | ScCall | ScCallWait
| ScUpClose | ScDownClose | ScConnClose
| ScMetaAfterClose      (* a request after Close (former F5) *)
| ScStateAfterLateAck   (* State() after an ack that arrived after the ack timeout (former F13) *)
| ScCloseWhilePending   (* Conn.Close while a request of another goroutine is in flight *)
| ScCloseDuringOutage   (* Conn.Close while the connection is reconnecting and every redial fails *)
| ScUpCloseDuringOutage (* Upstream.Close during such an outage, then Conn.Close *)
| ScFlushAbandoned      (* pos Flush calls with a cancelled context, then Write+Flush (call under test) and Close *)
| ScFloodThenRequest    (* pos uncollected calls, reply calls, chunks, metadata, then a request answered at once *)
| ScReadManyGroups      (* ReadDataPoints of one chunk with pos alias-addressed groups, ack flush every 1 ms, State() polled *)
| ScCloseSilent         (* stream Close against a broker that never acknowledges chunks and never answers the close
                           request (pings are answered): pos 0/1 downstream, pos >= 2 upstream; the caller's context
                           is already done at entry (p_ctx = 0) or expires during the final flush / ack wait *)
| ScReentrantHook       (* a user callback (pos: 0 send hook, 1 ack hook, 2 upstream closed handler, 3 downstream closed
                           handler, 4 send hook + Flush from the hook) calls back into the same stream: State() *)
| ScDupBurst            (* pos requests one after the other, every answer written 6 times back-to-back *)
| ScUpCloseSlowList.    (* Upstream.Close, ack withheld, both deadlines expire while sent.List is in progress *)
(* BDup: the broker writes its answer 3-6 times back-to-back; the copies after the first are addressed to a request that
   is no longer registered and are dropped by the dispatcher *)
Inductive beh := BAnswer | BDelay | BDrop | BMisaddr | BDisconnect | BDup.

Record params := mkPrm {
  p_ctx : N;       (* context deadline of the call under test, ms *)
  p_cto : N;       (* stream close timeout, ms *)
  p_ka : N;        (* ping interval + ping timeout, ms *)
  p_delay : N;     (* delay of the `delay` behaviour, ms *)
  p_redial : N;    (* time from detection to reconnected + resumed, ms (upper estimate) *)
  p_other : N      (* context deadline of the other goroutine's request (ScCloseWhilePending) *)
}.

Definition scen_eqb (a b : scen) : bool :=
  match a, b with
  | ScOpenUp, ScOpenUp | ScOpenDown, ScOpenDown | ScWrite, ScWrite | ScFlush, ScFlush | ScRead, ScRead
  | ScReadMeta, ScReadMeta | ScMetadata, ScMetadata | ScCall, ScCall | ScCallWait, ScCallWait
  | ScUpClose, ScUpClose | ScDownClose, ScDownClose | ScConnClose, ScConnClose
  | ScMetaAfterClose, ScMetaAfterClose | ScStateAfterLateAck, ScStateAfterLateAck
  | ScCloseWhilePending, ScCloseWhilePending | ScCloseDuringOutage, ScCloseDuringOutage
  | ScUpCloseDuringOutage, ScUpCloseDuringOutage | ScUpCloseSlowList, ScUpCloseSlowList
  | ScFlushAbandoned, ScFlushAbandoned | ScFloodThenRequest, ScFloodThenRequest
  | ScReadManyGroups, ScReadManyGroups | ScCloseSilent, ScCloseSilent | ScReentrantHook, ScReentrantHook
  | ScDupBurst, ScDupBurst => true
  | _, _ => false
  end.

(* the processes of a scenario, in starting order *)
Definition scen_procs (sc : scen) (pr : params) : list proc :=
  let ctx := Some (p_ctx pr) in
  match sc with
  | ScOpenUp | ScMetadata => [connRequest 2 ctx 1]
  | ScOpenDown => [openDownstream 2 ctx 1]
  | ScWrite => [upWrite ctx]
  | ScFlush => [upFlush ctx (fun r => Ret r)]
  | ScRead => [readDP ctx]
  | ScReadMeta => [readMeta ctx]
  | ScCall => [e2eCall ctx (Ret ONil)]
  | ScCallWait => [e2eCallAndWait ctx]
  | ScUpClose => [upClose ctx (p_cto pr) 1]
  | ScDownClose => [downClose ctx 1]
  | ScConnClose => [connClose]
  | ScMetaAfterClose => [connRequest 2 ctx 1]
  | ScStateAfterLateAck => [processResult; upState]
  | ScCloseWhilePending => [connRequest 2 (Some (p_other pr)) 1; connClose]
  | ScCloseDuringOutage => [reconnectHold; connClose]
  | ScUpCloseDuringOutage => [reconnectHold; upClose ctx (p_cto pr) 1]
  | ScUpCloseSlowList => [upClose_slow ctx (p_cto pr) (p_other pr) 1]      (* p_other = duration of List *)
  | ScFlushAbandoned => [upWrite ctx; upFlush ctx (fun r => Ret r)]
  | ScFloodThenRequest => [connRequest 2 ctx 1]
  | ScReadManyGroups => [readDP ctx]
  | ScDupBurst => [connRequest 2 ctx 1]
  | ScReentrantHook => [upFlush ctx (fun r => Ret r); upState]     (* the hook runs on the event dispatcher, outside every lock *)
  | ScCloseSilent => [upClose ctx (p_cto pr) 1]
  end.
(* which of them is the call under test *)
Definition scen_target (sc : scen) : nat :=
  match sc with ScStateAfterLateAck | ScCloseWhilePending | ScCloseDuringOutage | ScUpCloseDuringOutage | ScFlushAbandoned => 1%nat | _ => 0%nat end.
(* ... where the processes depend on the position too *)
Definition scen_procs_pos (sc : scen) (pos : N) (pr : params) : list proc :=
  match sc, pos with
  | ScCloseSilent, (0 | 1) => [downClose (Some (p_ctx pr)) 1]
  | _, _ => scen_procs sc pr
  end.

(* what completes exchange number pos of the scenario *)
Definition done_flag (sc : scen) (pos : N) : flag :=
  match sc, pos with
  | ScRead, _ => FDpAvail
  | ScReadMeta, _ => FMetaAvail
  | ScCall, _ => FCallAck
  | ScCallWait, 0 => FCallAck
  | ScCallWait, _ => FReplyCall
  | ScUpClose, 0 => FAcked
  | ScFlushAbandoned, _ => FFlushRes
  | ScCloseSilent, _ => FReply 99       (* nothing the broker does completes it *)
  | ScReadManyGroups, _ => FDpAvail
  | _, _ => FReply 1
  end.

(* initial flags; the exchanges other than pos are answered at once: their flags are up from the start *)
Definition scen_flags (sc : scen) (pos : N) : list flag :=
  match sc with
  | ScMetaAfterClose => [FStClosed; FWClosed]
  | ScStateAfterLateAck => [FStConnected; FWaiterEntry]       (* the waiter gave up at the ack timeout: nobody receives *)
  | ScUpClose => [FStConnected; FFlushReady; FFlushRes] ++ (match pos with 0 => [FReply 1] | _ => [FAcked] end)
  | ScCallWait => [FStConnected] ++ (match pos with 0 => [FReplyCall] | _ => [FCallAck] end)
  | ScFlush => [FStConnected; FFlushReady; FFlushRes]
  | ScWrite => [FStConnected; FWriteRecv]
  | ScDownClose => [FStConnected; FFinalAck]
  | ScCloseDuringOutage => [FStConnected]
  | ScUpCloseDuringOutage => [FStConnected; FFlushReady; FFlushRes]
  | ScUpCloseSlowList => [FStConnected; FFlushReady; FFlushRes; FReply 1]
  | ScFlushAbandoned => [FStConnected; FWriteRecv; FFlushReady; FFlushRes]   (* the flush loop is back at its select *)
  | ScReentrantHook => [FStConnected; FWriteRecv; FFlushReady; FFlushRes]
  | ScCloseSilent => [FStConnected; FFlushReady; FFlushRes] ++ (match pos with 0 => [FFinalAck] | _ => [] end)
  | _ => [FStConnected]
  end.

(* is the exchange re-issued by the library after a reconnect?  (retry wrapper of Conn.send) *)
Definition retried (sc : scen) : bool :=
  match sc with ScOpenUp | ScOpenDown | ScMetadata | ScMetaAfterClose | ScCloseWhilePending => true | _ => false end.

Definition far : N := 1000000.

Definition tev := (N * event)%type.
Fixpoint insert_t (x : tev) (l : list tev) : list tev :=
  match l with
  | [] => [x]
  | y :: r => if fst x <? fst y then x :: l else y :: insert_t x r
  end.
Definition sort_t (l : list tev) : list tev := fold_left (fun acc x => insert_t x acc) l [].

(* the environment's timed script for behaviour b at exchange pos *)
Definition scen_script (sc : scen) (b : beh) (pos : N) (pr : params) : list tev :=
  let f := done_flag sc pos in
  match b with
  | BAnswer | BDup => [(0, ESet f true)]
  | BDelay => [(p_delay pr, ESet f true)]
  | BDrop | BMisaddr => []
  | BDisconnect =>
      let t1 := p_ka pr in let t2 := p_ka pr + p_redial pr in
      [(0, ELinkDies); (t1, ESet FStConnected false); (t1, ESet FStReconnecting true);
       (t2, ELinkUp); (t2, ESet FStReconnecting false); (t2, ESet FStConnected true)]
      ++ (if retried sc then [(t2, ESet (FReply 2) true)] else [])
  end ++
  [(p_cto pr, ETick (p_cto pr)); (p_ctx pr, ETick (p_ctx pr)); (p_other pr, ETick (p_other pr)); (far, ETick far)].

(* ... as an event list: the clock is advanced to each entry's time first *)
Definition scen_events (sc : scen) (b : beh) (pos : N) (pr : params) : list (event * nat) :=
  flat_map (fun te => [(ETick (fst te), 0%nat); (snd te, 0%nat)]) (sort_t (scen_script sc b pos pr)).

Definition scen_run (sc : scen) (b : beh) (pos : N) (pr : params) : world :=
  run (init (p_ka pr) (scen_flags sc pos) (scen_procs_pos sc pos pr)) (scen_events sc b pos pr).

(* model prediction for the call under test: outcome class and the clock value at its return *)
Definition predict (sc : scen) (b : beh) (pos : N) (pr : params) : outcome * option N :=
  let p := nth (scen_target sc) (procs (scen_run sc b pos pr)) dummy in (result p, ret_at p).

(* the bound that governs the call (property text): its context; for calls that go straight to
   the stream's wire connection also keepalive detection once the link is dead; Conn.Close has no
   context guard: it is governed by the contexts of the requests in flight *)
Definition governing_bound (sc : scen) (b : beh) (pr : params) : N :=
  match sc with
  | ScConnClose | ScStateAfterLateAck => 0
  | ScUpCloseSlowList => N.max (p_ctx pr) (p_other pr)   (* the storage call itself cannot be interrupted *)
  | ScCloseWhilePending => p_ctx pr      (* property text: Close returns by ITS context *)
  | _ => p_ctx pr
  end.

(* ---------- harness case ---------- *)
Record blk_case := mkBlk {
  b_scen : scen; b_beh : beh; b_pos : N; b_prm : params;
  b_slack : N;
  b_class : outcome;        (* observed outcome class of the call under test *)
  b_ms : N;                 (* observed wall-clock duration, ms *)
  b_follow : outcome;       (* outcome class of the follow-up call *)
  b_follow_ms : N
}.

(* where the runtime has a legitimate choice (a disconnect races with resume and with the
   caller's deadline) the model is set-valued *)
Definition acceptable (sc : scen) (b : beh) (pos : N) (m : outcome) : list outcome :=
  match b, sc with
  | BDisconnect, (ScUpClose | ScDownClose | ScWrite | ScFlush) => [m; ONil; OCtx; OConnClosed; OStreamClosed; OOther]
  | (BDrop | BMisaddr), ScUpClose =>
      (* the drain ends at the deadline; the close request is then written and answered while
         ctx.Done() is ready too: select may take either *)
      match pos with 0 => [m; ONil; OCtx] | _ => [m] end
  | _, ScUpCloseSlowList => [m; ONil; OCtx]
  | _, ScUpCloseDuringOutage => [m; ONil; OCtx; OConnClosed; OStreamClosed; OOther]   (* races with the stream noticing the outage *)
  | _, _ => [m]
  end.

Definition expected_follow (sc : scen) (b : beh) : list outcome :=
  match sc, b with
  | ScConnClose, _ | ScCloseWhilePending, _ | ScMetaAfterClose, _ | ScCloseDuringOutage, _ => [OConnClosed]   (* a request after Close fails at once *)
  | _, _ => [ONil]
  end.

Definition blk_corr (c : blk_case) : bool :=
  let pm := predict (b_scen c) (b_beh c) (b_pos c) (b_prm c) in
  existsb (outcome_eqb (b_class c)) (acceptable (b_scen c) (b_beh c) (b_pos c) (fst pm))
  && match snd pm with
     | Some t => (b_ms c <=? t + b_slack c) || negb (outcome_eqb (b_class c) (fst pm))
     | None => outcome_eqb (b_class c) OBlocked
     end
  && existsb (outcome_eqb (b_follow c)) (expected_follow (b_scen c) (b_beh c)).

(* the property on the implementation's own observation: returned by the governing bound (+
   slack), did not panic or hang, and the follow-up call still works: on a live connection it
   succeeds; after a deliberate Close it fails with the connection-closed error without waiting
   for its context. *)
Definition blk_ok (c : blk_case) : bool :=
  negb (outcome_eqb (b_class c) OBlocked) && negb (outcome_eqb (b_class c) OPanic)
  && (b_ms c <=? governing_bound (b_scen c) (b_beh c) (b_prm c) + b_slack c)
  && negb (outcome_eqb (b_follow c) OBlocked) && negb (outcome_eqb (b_follow c) OPanic)
  && match b_scen c with
     | ScMetaAfterClose => outcome_eqb (b_class c) OConnClosed && (b_ms c <=? b_slack c)
                           && outcome_eqb (b_follow c) OConnClosed && (b_follow_ms c <=? b_slack c)
     | ScConnClose | ScCloseWhilePending | ScCloseDuringOutage => outcome_eqb (b_follow c) OConnClosed && (b_follow_ms c <=? b_slack c)
     (* "later calls still work": after abandoned flushes / an inbound flood nobody collects, a call
        that a healthy broker answers at once succeeds, and so does the Close after it *)
     | ScFlushAbandoned | ScFloodThenRequest | ScReadManyGroups | ScReentrantHook | ScDupBurst =>
         outcome_eqb (b_class c) ONil && outcome_eqb (b_follow c) ONil
     | _ => outcome_eqb (b_follow c) ONil
     end.

Definition blk_judge (c : blk_case) : N :=
  (if blk_corr c then 0 else 1) + (if blk_ok c then 0 else 2).

(* Model of the routing tables of wire/client_conn.go: clientUpstreams {acks, aliases,
   messageWriters} and clientDownstreams {dps, dpsUnreliable, ackCompletes, metadata, aliases},
   with openUpstream / SubscribeDownstream* / Send*CloseRequest (table part) and the five dispatch
   loops.  Channels are identified by a number drawn from a counter at `make(chan ...)`.
   A dispatch delivers with `select { case ch <- msg: default: }`: a full channel (capacity 1024)
   drops - the model reports the delivery attempt.  (readDownstreamMetadataLoop used to keep the
   table read lock when the source node was not subscribed - finding F6, fixed in /repo 900bd4c:
   the loop now releases it on every path, so locks do not appear in this model.)
   Executable; no proofs here. *)
From Coq Require Import List NArith Bool.
From Iscp Require Import Lib.ListMap.
Import ListNotations.
Open Scope N_scope.

Inductive kind := KAck | KChunk | KChunkU | KAckC.

Record rt := mkRt {
  t_acks : lmap N;           (* upstreams.acks: alias -> channel *)
  t_upalias : lmap N;        (* upstreams.aliases: stream id -> alias *)
  t_writers : lmap N;        (* upstreams.messageWriters: alias -> transport (0 reliable, 1 unreliable) *)
  t_dps : lmap N;            (* downstreams.dps *)
  t_dpsU : lmap N;           (* downstreams.dpsUnreliable *)
  t_ackc : lmap N;           (* downstreams.ackCompletes *)
  t_meta : lmap (lmap N);    (* downstreams.metadata: alias -> source node -> channel *)
  t_dnalias : lmap N;        (* downstreams.aliases: stream id -> alias *)
  t_next : N                 (* next channel identity *)
}.

Definition rt_init : rt := mkRt [] [] [] [] [] [] [] [] 0.

Inductive rop :=
| OpenUp (sid alias : N) (unrel hasU : bool)   (* openUpstream after an open/resume response; QoS unreliable? unreliable transport present? *)
| OpenUpRefused (sid alias : N)                (* an open/resume response with a failure code: nothing is registered
                                                  (it used to register the response's zero alias: F42, /repo af370b2) *)
| SubAck (alias : N)                           (* SubscribeUpstreamChunkAck *)
| CloseUp (sid : N)                            (* table part of SendUpstreamCloseRequest *)
| SendChunk (alias : N)                        (* SendUpstreamChunk: which writer *)
| SubChunk (alias : N) (unrel hasU : bool)     (* SubscribeDownstreamChunk *)
| SubAckC (alias : N)
| SubMeta (alias node : N)
| DnAlias (sid alias : N)                      (* table part of SendDownstreamOpen/ResumeRequest *)
| CloseDn (sid : N)
| Recv (k : kind) (alias : N)                  (* one message of kind k addressed to alias *)
| RecvMeta (alias node : N).

Inductive rres :=
| Created (ch : N) | Sub (ch : N) | NoSub | AlreadySub | Deliver (ch : N) | Nobody | Writer (tr : N) | NoStream
| Done.

Definition tbl (k : kind) (s : rt) : lmap N :=
  match k with KAck => t_acks s | KChunk => t_dps s | KChunkU => t_dpsU s | KAckC => t_ackc s end.

Definition set_dn (s : rt) (dps dpsU ackc : lmap N) (meta : lmap (lmap N)) (al : lmap N) (next : N) : rt :=
  mkRt (t_acks s) (t_upalias s) (t_writers s) dps dpsU ackc meta al next.

Definition rstep (s : rt) (o : rop) : rt * rres :=
  match o with
  | OpenUp sid alias unrel hasU =>
      (mkRt (insert alias (t_next s) (t_acks s)) (insert sid alias (t_upalias s))
            (insert alias (if unrel && hasU then 1 else 0) (t_writers s))
            (t_dps s) (t_dpsU s) (t_ackc s) (t_meta s) (t_dnalias s) (t_next s + 1),
       Created (t_next s))
  | OpenUpRefused _ _ => (s, Done)
  | SubAck alias => (s, match lookup alias (t_acks s) with Some ch => Sub ch | None => NoSub end)
  | CloseUp sid =>
      match lookup sid (t_upalias s) with
      | None => (s, Done)
      | Some a =>
          (mkRt (remove a (t_acks s)) (remove sid (t_upalias s)) (remove a (t_writers s))
                (t_dps s) (t_dpsU s) (t_ackc s) (t_meta s) (t_dnalias s) (t_next s), Done)
      end
  | SendChunk alias => (s, match lookup alias (t_writers s) with Some tr => Writer tr | None => NoStream end)
  | SubChunk alias unrel hasU =>
      (if unrel && hasU then
           match lookup alias (t_dpsU s) with
           | Some _ => (s, AlreadySub)
           | None => (set_dn s (t_dps s) (insert alias (t_next s) (t_dpsU s)) (t_ackc s) (t_meta s) (t_dnalias s) (t_next s + 1), Created (t_next s))
           end
         else
           match lookup alias (t_dps s) with
           | Some _ => (s, AlreadySub)
           | None => (set_dn s (insert alias (t_next s) (t_dps s)) (t_dpsU s) (t_ackc s) (t_meta s) (t_dnalias s) (t_next s + 1), Created (t_next s))
           end)
  | SubAckC alias =>
      (match lookup alias (t_ackc s) with
         | Some _ => (s, AlreadySub)
         | None => (set_dn s (t_dps s) (t_dpsU s) (insert alias (t_next s) (t_ackc s)) (t_meta s) (t_dnalias s) (t_next s + 1), Created (t_next s))
         end)
  | SubMeta alias node =>
      (let m := match lookup alias (t_meta s) with Some m => m | None => [] end in
         (set_dn s (t_dps s) (t_dpsU s) (t_ackc s) (insert alias (insert node (t_next s) m) (t_meta s)) (t_dnalias s) (t_next s + 1),
          Created (t_next s)))
  | DnAlias sid alias =>
      (set_dn s (t_dps s) (t_dpsU s) (t_ackc s) (t_meta s) (insert sid alias (t_dnalias s)) (t_next s), Done)
  | CloseDn sid =>
      (match lookup sid (t_dnalias s) with
         | None => (s, Done)
         | Some a => (set_dn s (remove a (t_dps s)) (remove a (t_dpsU s)) (remove a (t_ackc s)) (remove a (t_meta s))
                             (remove sid (t_dnalias s)) (t_next s), Done)
         end)
  | Recv k alias => (s, match lookup alias (tbl k s) with Some ch => Deliver ch | None => Nobody end)
  | RecvMeta alias node =>
      (s, match lookup alias (t_meta s) with
          | None => Nobody
          | Some m => match lookup node m with Some ch => Deliver ch | None => Nobody end
          end)
  end.

Fixpoint rrun_rt (s : rt) (ops : list rop) : rt * list rres :=
  match ops with
  | [] => (s, [])
  | o :: ops' => let r := rstep s o in let r' := rrun_rt (fst r) ops' in (fst r', snd r :: snd r')
  end.

(* the alias an operation is addressed to, given the tables (close operations name a stream id) *)
Definition op_alias (s : rt) (o : rop) : option N :=
  match o with
  | OpenUpRefused _ _ => None
  | OpenUp _ a _ _ | SubAck a | SendChunk a | SubChunk a _ _ | SubAckC a | SubMeta a _ | DnAlias _ a
  | Recv _ a | RecvMeta a _ => Some a
  | CloseUp sid => lookup sid (t_upalias s)
  | CloseDn sid => lookup sid (t_dnalias s)
  end.

(* ------------------------------------------------------------------------------------------ *)
(* c07_projection as a harness check (go/cmd/h-isolation): the final observables of every stream
   of a shared connection, next to those of the same stream driven alone through the same history
   (same outage).  No model of the code is consulted: both sides are the real library. *)
Definition ipt := (N * N * N)%type.
Definition igroups := list (N * list ipt).
Record iso_obs := mkIsoObs {
  io_ledger : list (N * list igroups);   (* union ledger: seq -> distinct contents *)
  io_retx : list N;                      (* seqs received again in a later incarnation *)
  io_acked : list N;                     (* ack hook log, sorted *)
  io_close : list (N * N);               (* close request totals *)
  io_stored : list N;                    (* the stream's stored chunks at the end *)
  io_rets : list N                       (* API return codes of the stream's operations *)
}.
Record iso_case := mkIsoCase { ic_streams : list (iso_obs * iso_obs) }.   (* (shared run, solo run) per stream *)

Definition ipt_eqb (a b : ipt) : bool :=
  (fst (fst a) =? fst (fst b)) && (snd (fst a) =? snd (fst b)) && (snd a =? snd b).
Definition igroups_eqb (a b : igroups) : bool :=
  list_beq _ (fun x y => (fst x =? fst y) && list_beq _ ipt_eqb (snd x) (snd y)) a b.
Definition isubset (a b : list igroups) : bool := forallb (fun x => existsb (igroups_eqb x) b) a.
Definition iso_obs_eqb (a b : iso_obs) : bool :=
  list_beq _ (fun x y => (fst x =? fst y) && isubset (snd x) (snd y) && isubset (snd y) (snd x)) (io_ledger a) (io_ledger b)
  && list_beq _ N.eqb (io_retx a) (io_retx b)
  && list_beq _ N.eqb (io_acked a) (io_acked b)
  && list_beq _ (fun x y => (fst x =? fst y) && (snd x =? snd y)) (io_close a) (io_close b)
  && list_beq _ N.eqb (io_stored a) (io_stored b)
  && list_beq _ N.eqb (io_rets a) (io_rets b).
Definition c07_projection_ok (c : iso_case) : bool := forallb (fun p => iso_obs_eqb (fst p) (snd p)) (ic_streams c).
Definition iso_judge (c : iso_case) : N := if c07_projection_ok c then 0 else 2.

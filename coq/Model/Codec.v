(* Model of the message codec: encoding/convert/{wire_to_proto,proto_to_wire}.go (the field-by-field
   converters), the recover wrappers of encoding/{protobuf,json}/main.go and the size gate / byte
   accounting of encoding/main.go.  Executable; no proofs here.

   Values are untyped trees.  A Go struct is [VStruct] of its fields IN DECLARATION ORDER (proto
   structs without their XXX_ fields); a pointer is the pointee or [VNil]; an interface (oneof) is
   [VOneof tag inner] or [VNil]; strings, []byte and uuids are [VBytes]; integers, durations
   (nanoseconds) and enum numbers are [VInt]; a time.Time is [VTime ns utc] with ns its mathematical
   Unix time in nanoseconds (unbounded) and utc = (Location == UTC).  On the wire side a nil slice/map
   is [VNil] and an empty one [VList []]/[VMap []]; on the proto side nil and empty collections are
   identified ([VList []]/[VMap []]) because proto3 cannot tell them apart.

   The enum tables are the ones generated from the source by T1 (Gen/Enums.v). *)
From Coq Require Import List NArith ZArith Bool.
From Iscp Require Import Gen.Enums.
Import ListNotations.
Open Scope Z_scope.

Inductive value :=
| VNil
| VInt (z : Z)
| VBool (b : bool)
| VBytes (l : list N)
| VTime (ns : Z) (utc : bool)
| VList (l : list value)
| VMap (l : list (Z * value))
| VStruct (fs : list value)
| VOneof (tag : N) (v : value).

Inductive outcome (A : Type) := Ok (a : A) | Err | Panic.
Arguments Ok {A} a.
Arguments Err {A}.
Arguments Panic {A}.

Definition obind {A B} (o : outcome A) (f : A -> outcome B) : outcome B :=
  match o with Ok a => f a | Err => Err | Panic => Panic end.
Definition omap {A B} (f : A -> B) (o : outcome A) : outcome B :=
  match o with Ok a => Ok (f a) | Err => Err | Panic => Panic end.

(* ---------- the conversion language ---------- *)

Inductive conv :=
| Copy                         (* x *)
| U8ToU32 | U32ToU8            (* uint32(x) of a uint8 ; uint8(x) *)
| I64ToU64 | U64ToI64          (* uint64(d) of a Duration ; time.Duration(x) of a uint64 *)
| DurToSec | SecToDur          (* uint32(d.Seconds()) ; time.Duration(x) * time.Second *)
| DurToMs | MsToDur            (* uint32(d.Milliseconds()) ; time.Duration(x) * time.Millisecond *)
| UuidToBytes                  (* u[:] *)
| BytesToUuid | MustUuid       (* toUUID(x) : error ; uuid.Must(uuid.FromBytes(x)) : panic *)
| UuidToString | ParseUuid     (* u.String() ; uuid.Parse(s) *)
| TimeToNanos | TimeToNanosOrZero | NanosToUtc  (* t.UnixNano() ; orUnixZero(t) ; time.Unix(0,x).UTC() *)
| EnumTbl (t : list (Z * Z))   (* switch table; error when absent *)
| Opt (c : conv)               (* if in == nil { return nil } *)
| NilOk (c : conv)             (* same code shape as Opt, for a oneof that the grammar requires *)
| NilTo (z : value) (c : conv) (* if in == nil { return &T{} } *)
| MapList (c : conv)           (* for _, v := range in { res = append(res, c v) }, res made non-nil *)
| MapVals (c : conv)           (* for k, v := range in { res[k] = c v } *)
| Struct (n : nat) (fs : list (nat * conv)) (* n = number of fields of the input struct; output field j = (snd fs_j) applied to input field (fst fs_j) *)
| Oneof (alts : list (N * (N * conv))). (* type switch: input tag -> (output tag, conversion); else error *)

Definition two32 : Z := 4294967296.
Definition two63 : Z := 9223372036854775808.
Definition two64 : Z := 18446744073709551616.
Definition e9 : Z := 1000000000.
Definition e6 : Z := 1000000.
(* the zero time.Time (January 1, year 1, 00:00 UTC) as Unix nanoseconds *)
Definition zero_time_ns : Z := -62135596800000000000.
(* int64 wrap-around of a mathematical value *)
Definition wrap64s (z : Z) : Z := (z + two63) mod two64 - two63.

Fixpoint lookupZ {V} (k : Z) (m : list (Z * V)) : option V :=
  match m with [] => None | (k', v) :: m' => if k' =? k then Some v else lookupZ k m' end.
Fixpoint lookupN {V} (k : N) (m : list (N * V)) : option V :=
  match m with [] => None | (k', v) :: m' => if (k' =? k)%N then Some v else lookupN k m' end.

(* ---------- google/uuid String and Parse (v1.3.0), on byte lists ---------- *)
Open Scope N_scope.
Definition hexd (n : N) : N := if n <? 10 then 48 + n else 87 + n.
Definition xval (c : N) : option N :=
  if (48 <=? c) && (c <=? 57) then Some (c - 48)
  else if (97 <=? c) && (c <=? 102) then Some (c - 87)
  else if (65 <=? c) && (c <=? 70) then Some (c - 55)
  else None.
Definition xtob (a b : N) : option N :=
  match xval a, xval b with Some x, Some y => Some (x * 16 + y) | _, _ => None end.
Fixpoint hexs (l : list N) : list N :=
  match l with [] => [] | b :: l' => hexd (b / 16) :: hexd (b mod 16) :: hexs l' end.
Fixpoint unhex (l : list N) : option (list N) :=
  match l with
  | [] => Some []
  | a :: b :: l' => match xtob a b, unhex l' with Some x, Some r => Some (x :: r) | _, _ => None end
  | _ => None
  end.
Definition uuid_string (u : list N) : list N :=
  hexs (firstn 4 u) ++ [45] ++ hexs (firstn 2 (skipn 4 u)) ++ [45] ++ hexs (firstn 2 (skipn 6 u)) ++ [45]
  ++ hexs (firstn 2 (skipn 8 u)) ++ [45] ++ hexs (skipn 10 u).
Definition parse36 (s : list N) : option (list N) :=
  if (nth 8 s 0 =? 45) && (nth 13 s 0 =? 45) && (nth 18 s 0 =? 45) && (nth 23 s 0 =? 45) then
    match unhex (firstn 8 s), unhex (firstn 4 (skipn 9 s)), unhex (firstn 4 (skipn 14 s)),
          unhex (firstn 4 (skipn 19 s)), unhex (firstn 12 (skipn 24 s)) with
    | Some a, Some b, Some c, Some d, Some e => Some (a ++ b ++ c ++ d ++ e)
    | _, _, _, _, _ => None
    end
  else None.
Definition lower (c : N) : N := if (65 <=? c) && (c <=? 90) then c + 32 else c.
Definition urn_prefix : list N := [117; 114; 110; 58; 117; 117; 105; 100; 58].  (* "urn:uuid:" *)
Fixpoint list_N_eqb (a b : list N) : bool :=
  match a, b with
  | [], [] => true
  | x :: a', y :: b' => (x =? y) && list_N_eqb a' b'
  | _, _ => false
  end.
Definition parse_uuid (s : list N) : option (list N) :=
  let n := length s in
  if Nat.eqb n 36 then parse36 s
  else if Nat.eqb n 45 then
    if list_N_eqb (map lower (firstn 9 s)) urn_prefix then parse36 (skipn 9 s) else None
  else if Nat.eqb n 38 then parse36 (skipn 1 s)
  else if Nat.eqb n 32 then unhex s
  else None.
Open Scope Z_scope.

(* ---------- evaluation ---------- *)

Definition eval_prim_int (f : Z -> outcome value) (v : value) : outcome value :=
  match v with VInt z => f z | _ => Err end.

Fixpoint eval (c : conv) (v : value) {struct c} : outcome value :=
  match c with
  | Copy => Ok v
  | U8ToU32 => eval_prim_int (fun z => Ok (VInt z)) v
  | U32ToU8 => eval_prim_int (fun z => Ok (VInt (z mod 256))) v
  | I64ToU64 => eval_prim_int (fun z => Ok (VInt (z mod two64))) v
  | U64ToI64 => eval_prim_int (fun z => Ok (VInt (wrap64s z))) v
  (* faithful for 0 <= d with d < 2^24 s or d a whole number of seconds, d/1e9 < 2^32: there
     float64 Seconds() truncates exactly; outside, Go rounds/wraps in ways not modelled *)
  | DurToSec => eval_prim_int (fun z => Ok (VInt (Z.quot z e9 mod two32))) v
  | SecToDur => eval_prim_int (fun z => Ok (VInt (z * e9))) v
  | DurToMs => eval_prim_int (fun z => Ok (VInt (Z.quot z e6 mod two32))) v
  | MsToDur => eval_prim_int (fun z => Ok (VInt (z * e6))) v
  | UuidToBytes => match v with VBytes l => Ok (VBytes l) | _ => Err end
  | BytesToUuid => match v with VBytes l => if Nat.eqb (length l) 16 then Ok (VBytes l) else Err | _ => Err end
  | MustUuid => match v with VBytes l => if Nat.eqb (length l) 16 then Ok (VBytes l) else Panic | _ => Err end
  | UuidToString => match v with VBytes l => Ok (VBytes (uuid_string l)) | _ => Err end
  | ParseUuid => match v with
                 | VBytes s => match parse_uuid s with Some u => Ok (VBytes u) | None => Err end
                 | _ => Err end
  | TimeToNanos => match v with VTime ns _ => Ok (VInt (wrap64s ns)) | _ => Err end
  | TimeToNanosOrZero => match v with
                         | VTime ns _ => Ok (VInt (if ns =? zero_time_ns then 0 else wrap64s ns))
                         | _ => Err end
  | NanosToUtc => eval_prim_int (fun z => Ok (VTime z true)) v
  | EnumTbl t => eval_prim_int (fun z => match lookupZ z t with Some w => Ok (VInt w) | None => Err end) v
  | Opt c1 => match v with VNil => Ok VNil | _ => eval c1 v end
  | NilOk c1 => match v with VNil => Ok VNil | _ => eval c1 v end
  | NilTo z c1 => match v with VNil => Ok z | _ => eval c1 v end
  | MapList c1 =>
      match v with
      | VNil => Ok (VList [])
      | VList l =>
          omap VList ((fix go (l : list value) : outcome (list value) :=
                         match l with
                         | [] => Ok []
                         | x :: l' => obind (eval c1 x) (fun y => omap (cons y) (go l'))
                         end) l)
      | _ => Err
      end
  | MapVals c1 =>
      match v with
      | VNil => Ok (VMap [])
      | VMap l =>
          omap VMap ((fix go (l : list (Z * value)) : outcome (list (Z * value)) :=
                        match l with
                        | [] => Ok []
                        | (k, x) :: l' => obind (eval c1 x) (fun y => omap (cons (k, y)) (go l'))
                        end) l)
      | _ => Err
      end
  | Struct _ fs =>
      match v with
      | VStruct ws =>
          omap VStruct ((fix go (fs : list (nat * conv)) : outcome (list value) :=
                           match fs with
                           | [] => Ok []
                           | (i, c1) :: fs' => obind (eval c1 (nth i ws VNil)) (fun y => omap (cons y) (go fs'))
                           end) fs)
      | VNil => Panic           (* nil pointer dereference *)
      | _ => Err
      end
  | Oneof alts =>
      match v with
      | VOneof t x =>
          (fix go (alts : list (N * (N * conv))) : outcome value :=
             match alts with
             | [] => Err
             | (t0, (t1, c1)) :: alts' => if (t0 =? t)%N then omap (VOneof t1) (eval c1 x) else go alts'
             end) alts
      | _ => Err               (* nil interface / unknown type: the default clause *)
      end
  end.

(* ---------- the specification side: domain and canonical form of a forward conversion ---------- *)

(* first key of the table with the same image (Succeeded for NormalClosure) *)
Definition canon_key (t : list (Z * Z)) (k : Z) : Z :=
  match lookupZ k t with
  | Some w => match find (fun kv => snd kv =? w) t with Some kv => fst kv | None => k end
  | None => k
  end.
Definition alt_image (alts : list (N * (N * conv))) (t : N) : option N := option_map fst (lookupN t alts).
Definition canon_tag (alts : list (N * (N * conv))) (t : N) : N :=
  match alt_image alts t with
  | Some t1 => match find (fun a => (fst (snd a) =? t1)%N) alts with Some a => fst a | None => t end
  | None => t
  end.

Definition bytes_okb (l : list N) : bool := forallb (fun b => (b <? 256)%N) l.
Definition int64b (z : Z) : bool := (- two63 <=? z) && (z <? two63).
Definition dur_sec_okb (d : Z) : bool :=
  (0 <=? d) && (d / e9 <? two32) && ((d <? 16777216 * e9) || (d mod e9 =? 0)).
Definition dur_ms_okb (d : Z) : bool := (0 <=? d) && (d / e6 <? two32).

Fixpoint in_range (c : conv) (v : value) {struct c} : bool :=
  match c with
  | Copy => true
  | U8ToU32 => match v with VInt z => (0 <=? z) && (z <? 256) | _ => false end
  | I64ToU64 => match v with VInt z => int64b z | _ => false end
  | DurToSec => match v with VInt z => dur_sec_okb z | _ => false end
  | DurToMs => match v with VInt z => dur_ms_okb z | _ => false end
  | UuidToBytes => match v with VBytes l => Nat.eqb (length l) 16 | _ => false end
  | UuidToString => match v with VBytes l => Nat.eqb (length l) 16 && bytes_okb l | _ => false end
  | TimeToNanos => match v with VTime ns _ => int64b ns | _ => false end
  | TimeToNanosOrZero => match v with VTime ns _ => int64b ns || (ns =? zero_time_ns) | _ => false end
  | EnumTbl t => match v with VInt z => match lookupZ z t with Some _ => true | None => false end | _ => false end
  | Opt c1 => match v with VNil => true | _ => in_range c1 v end
  | NilOk c1 => match v with VNil => false | _ => in_range c1 v end
  | NilTo _ c1 => match v with VNil => false | _ => in_range c1 v end
  | MapList c1 => match v with VNil => true | VList l => forallb (in_range c1) l | _ => false end
  | MapVals c1 => match v with VNil => true | VMap l => forallb (fun kx => in_range c1 (snd kx)) l | _ => false end
  | Struct n fs =>
      match v with
      | VStruct ws =>
          Nat.eqb (length ws) n &&
          (fix go (fs : list (nat * conv)) : bool :=
             match fs with
             | [] => true
             | (i, c1) :: fs' => (Nat.ltb i n) && in_range c1 (nth i ws VNil) && go fs'
             end) fs
      | _ => false
      end
  | Oneof alts =>
      match v with
      | VOneof t x =>
          (fix go (alts : list (N * (N * conv))) : bool :=
             match alts with
             | [] => false
             | (t0, (t1, c1)) :: alts' => if (t0 =? t)%N then in_range c1 x else go alts'
             end) alts
      | _ => false
      end
  (* backward-only primitives have no forward domain *)
  | U32ToU8 | U64ToI64 | SecToDur | MsToDur | BytesToUuid | MustUuid | ParseUuid | NanosToUtc => false
  end.

(* canonical form of a wire value under forward conversion c: durations truncated to the wire
   unit, times as UTC (zero time as the Unix epoch where the code says so), absent collections
   empty, enum constants and oneof alternatives that share a wire value collapsed to the first *)
Fixpoint find_src (i : nat) (fs : list (nat * conv)) : option conv :=
  match fs with [] => None | (j, c) :: fs' => if Nat.eqb j i then Some c else find_src i fs' end.

Fixpoint canon (c : conv) (v : value) {struct c} : value :=
  match c with
  | DurToSec => match v with VInt z => VInt (z / e9 * e9) | _ => v end
  | DurToMs => match v with VInt z => VInt (z / e6 * e6) | _ => v end
  | TimeToNanos => match v with VTime ns _ => VTime ns true | _ => v end
  | TimeToNanosOrZero => match v with VTime ns _ => VTime (if ns =? zero_time_ns then 0 else ns) true | _ => v end
  | EnumTbl t => match v with VInt z => VInt (canon_key t z) | _ => v end
  | Opt c1 => match v with VNil => VNil | _ => canon c1 v end
  | NilOk c1 => canon c1 v
  | NilTo _ c1 => canon c1 v
  | MapList c1 => match v with VNil => VList [] | VList l => VList (map (canon c1) l) | _ => v end
  | MapVals c1 => match v with VNil => VMap [] | VMap l => VMap (map (fun kx => (fst kx, canon c1 (snd kx))) l) | _ => v end
  | Struct _ fs =>
      match v with
      | VStruct ws =>
          VStruct ((fix go (i : nat) (ws : list value) : list value :=
                      match ws with
                      | [] => []
                      | w :: ws' =>
                          (* the conversion that reads wire field i; a field nobody reads must come back unchanged *)
                          ((fix pick (fs : list (nat * conv)) : value :=
                              match fs with
                              | [] => w
                              | (j, c1) :: fs' => if Nat.eqb j i then canon c1 w else pick fs'
                              end) fs) :: go (S i) ws'
                      end) O ws)
      | _ => v
      end
  | Oneof alts =>
      match v with
      | VOneof t x =>
          VOneof (canon_tag alts t)
                 ((fix go (alts0 : list (N * (N * conv))) : value :=
                     match alts0 with
                     | [] => x
                     | (t0, (t1, c1)) :: alts' => if (t0 =? t)%N then canon c1 x else go alts'
                     end) alts)
      | _ => v
      end
  | _ => v
  end.

(* syntactic check that (c, c') is a forward/backward pair *)
Definition is_struct (c : conv) : bool := match c with Struct _ _ => true | _ => false end.
Definition tbl_inverse (t t' : list (Z * Z)) : bool :=
  forallb (fun kv => match lookupZ (snd kv) t' with Some k' => k' =? canon_key t (fst kv) | None => false end) t.

Fixpoint inverse_pair (c c' : conv) {struct c} : bool :=
  match c, c' with
  | Copy, Copy => true
  | U8ToU32, U32ToU8 => true
  | I64ToU64, U64ToI64 => true
  | DurToSec, SecToDur => true
  | DurToMs, MsToDur => true
  | UuidToBytes, BytesToUuid => true
  | UuidToBytes, MustUuid => true
  | UuidToString, ParseUuid => true
  | TimeToNanos, NanosToUtc => true
  | TimeToNanosOrZero, NanosToUtc => true
  | EnumTbl t, EnumTbl t' => tbl_inverse t t'
  | Opt c1, Opt c1' => is_struct c1 && inverse_pair c1 c1'
  | NilOk c1, _ => inverse_pair c1 c'
  | NilTo _ c1, NilTo _ c1' => is_struct c1 && inverse_pair c1 c1'
  (* the backward side rejects nil instead of substituting a default: on the forward domain (non-nil) the same pair *)
  | NilTo _ c1, Struct _ _ => is_struct c1 && inverse_pair c1 c'
  | MapList c1, MapList c1' => inverse_pair c1 c1'
  | MapVals c1, MapVals c1' => inverse_pair c1 c1'
  | Struct n fs, Struct m gs =>
      (* arities: the backward conversion produces all n wire fields and reads a struct of (length fs) fields *)
      Nat.eqb (length gs) n && Nat.eqb (length fs) m &&
      (* backward field i reads proto field j; forward field j must read wire field i and be its inverse *)
      (fix go (i : nat) (gs0 : list (nat * conv)) : bool :=
         match gs0 with
         | [] => true
         | (j, c1') :: gs' =>
             ((fix at_j (k : nat) (fs0 : list (nat * conv)) : bool :=
                 match fs0 with
                 | [] => false
                 | (i0, c1) :: fs' => if Nat.eqb k j then Nat.eqb i0 i && inverse_pair c1 c1' else at_j (S k) fs'
                 end) O fs)
             && go (S i) gs'
         end) O gs
      (* and no two forward fields read the same wire field (canon picks the first) *)
      && (fix nodup (fs0 : list (nat * conv)) : bool :=
            match fs0 with
            | [] => true
            | (i0, _) :: fs' => negb (existsb (fun f => Nat.eqb (fst f) i0) fs') && nodup fs'
            end) fs
  | Oneof alts, Oneof alts' =>
      (fix go (alts0 : list (N * (N * conv))) : bool :=
         match alts0 with
         | [] => true
         | (t0, (t1, c1)) :: rest =>
             ((fix look (alts1 : list (N * (N * conv))) : bool :=
                 match alts1 with
                 | [] => false
                 | (u0, (u1, c1')) :: rest' =>
                     if (u0 =? t1)%N then (u1 =? canon_tag alts t0)%N && inverse_pair c1 c1' else look rest'
                 end) alts')
             && go rest
         end) alts
  | _, _ => false
  end.

(* ---------- the converters of the source, field by field ---------- *)

Definition RCw := EnumTbl rc_w2p.   Definition RCp := EnumTbl rc_p2w.
Definition QSw := EnumTbl qos_w2p.  Definition QSp := EnumTbl qos_p2w.
Definition E0 := Opt (Struct 0 []).                       (* extension fields without content *)
Definition E1 := Opt (Struct 1 [(0%nat, Copy)]).          (* one bool *)
Definition id2 := Struct 2 [(0%nat, Copy); (1%nat, Copy)]. (* DataID, DataFilter: Name, Type *)
Notation "'St' n l" := (Struct n%nat l%nat) (at level 10, n at level 0, only parsing).

(* --- wire -> proto (wire_to_proto.go); outputs in proto declaration order --- *)
Definition w_filter := St 2 [(0, Copy); (1, MapList id2)].
Definition w_point := St 2 [(0, Copy); (1, Copy)].
Definition w_id_or_alias := NilOk (Oneof [(0, (0, id2)); (1, (1, Copy)); (2, (1, Copy))]%N).
Definition w_group := NilTo (VStruct [VNil; VList []]) (St 2 [(0, w_id_or_alias); (1, MapList w_point)]).
Definition w_chunk := NilTo (VStruct [VInt 0; VList []]) (St 2 [(0, Copy); (1, MapList w_group)]).
Definition w_uinfo_s := St 3 [(0, Copy); (2, UuidToBytes); (1, Copy)].
Definition w_uinfo := NilTo (VStruct [VBytes []; VBytes []; VBytes []]) w_uinfo_s.
Definition w_ext_connect := Opt (St 2 [(0, Copy); (1, Opt (St 1 [(0, UuidToString)]))]).
Definition w_base_time := St 5 [(0, Copy); (1, Copy); (2, U8ToU32); (3, I64ToU64); (4, TimeToNanos)].
Definition w_up_result := St 4 [(0, Copy); (1, RCw); (2, Copy); (3, E0)].
Definition w_down_result := St 5 [(0, UuidToBytes); (1, Copy); (2, RCw); (3, Copy); (4, E0)].
Definition w_resp4 := St 4 [(0, Copy); (1, RCw); (2, Copy); (3, E0)].   (* RequestID/CallID, ResultCode, ResultString, ext *)
Definition w_up_or_alias := Oneof [(0, (0, w_uinfo_s)); (1, (1, Copy))]%N.
Definition w_up_meta := Oneof [(0, (0, w_base_time))]%N.
Definition w_down_meta := Oneof [
  (0, (0, w_base_time));
  (1, (1, St 3 [(0, UuidToBytes); (1, Copy); (2, QSw)]));
  (2, (2, St 2 [(0, UuidToBytes); (1, Copy)]));
  (3, (3, St 3 [(0, UuidToBytes); (1, Copy); (2, QSw)]));
  (4, (4, St 4 [(0, UuidToBytes); (1, Copy); (2, Copy); (3, Copy)]));
  (5, (5, St 3 [(0, UuidToBytes); (1, MapList w_filter); (2, QSw)]));
  (6, (6, St 1 [(0, UuidToBytes)]));
  (7, (7, St 3 [(0, UuidToBytes); (1, MapList w_filter); (2, QSw)]));
  (8, (8, St 1 [(0, UuidToBytes)]))]%N.

Definition w2p_msg : conv := Oneof [
  (0, (0, St 6 [(0, Copy); (1, Copy); (2, Copy); (3, DurToSec); (4, DurToSec); (5, w_ext_connect)]));
  (1, (1, St 5 [(0, Copy); (1, Copy); (2, RCw); (3, Copy); (4, E0)]));
  (2, (2, St 3 [(0, RCw); (1, Copy); (2, E0)]));
  (3, (3, St 7 [(0, Copy); (1, Copy); (2, DurToMs); (3, DurToSec); (4, MapList id2); (5, QSw); (6, E1)]));
  (4, (4, St 8 [(0, Copy); (1, UuidToBytes); (2, Copy); (6, MapVals id2); (5, TimeToNanosOrZero); (3, RCw); (4, Copy); (7, E0)]));
  (5, (5, St 3 [(0, Copy); (1, UuidToBytes); (2, E0)]));
  (6, (6, St 5 [(0, Copy); (1, Copy); (2, RCw); (3, Copy); (4, E0)]));
  (7, (7, St 5 [(0, Copy); (1, UuidToBytes); (2, Copy); (3, Copy); (4, E1)]));
  (8, (8, w_resp4));
  (9, (9, St 8 [(0, Copy); (1, Copy); (2, MapList w_filter); (3, DurToSec); (4, MapVals id2); (5, QSw); (6, E0); (7, Copy)]));
  (10, (10, St 6 [(0, Copy); (1, UuidToBytes); (4, TimeToNanosOrZero); (2, RCw); (3, Copy); (5, E0)]));
  (11, (11, St 4 [(0, Copy); (1, UuidToBytes); (2, Copy); (3, E0)]));
  (12, (12, w_resp4));
  (13, (13, St 3 [(0, Copy); (1, UuidToBytes); (2, E0)]));
  (14, (14, w_resp4));
  (15, (15, St 7 [(0, Copy); (1, Copy); (2, Copy); (3, Copy); (4, Copy); (5, Copy); (6, E0)]));
  (16, (16, w_resp4));
  (17, (17, St 7 [(0, Copy); (1, Copy); (2, Copy); (3, Copy); (4, Copy); (5, Copy); (6, E0)]));
  (18, (18, St 2 [(0, Copy); (1, E0)]));
  (19, (19, St 2 [(0, Copy); (1, E0)]));
  (20, (20, St 4 [(0, Copy); (2, w_chunk); (1, MapList id2); (3, E0)]));
  (21, (21, St 4 [(0, Copy); (1, MapList w_up_result); (2, MapVals id2); (3, E0)]));
  (22, (22, St 4 [(0, Copy); (1, w_up_or_alias); (2, w_chunk); (3, E0)]));
  (23, (23, St 6 [(0, Copy); (1, Copy); (2, MapList w_down_result); (3, MapVals w_uinfo); (4, MapVals id2); (5, E0)]));
  (24, (24, St 5 [(0, Copy); (1, Copy); (2, RCw); (3, Copy); (4, E0)]));
  (25, (25, St 3 [(0, Copy); (1, w_up_meta); (2, E1)]));
  (26, (26, w_resp4));
  (27, (27, St 5 [(0, Copy); (1, Copy); (3, w_down_meta); (2, Copy); (4, E0)]));
  (28, (28, w_resp4))]%N.

(* --- proto -> wire (proto_to_wire.go); outputs in wire declaration order --- *)
Definition p_filter := St 2 [(0, Copy); (1, MapList id2)].
Definition p_point := St 2 [(0, Copy); (1, Copy)].
Definition p_id_or_alias := Oneof [(0, (0, id2)); (1, (1, Copy))]%N.
(* toDataPointGroup: a nil group is rejected (if in == nil { return nil, error }, since the repair of F24).
   The language has no "error on nil": the plain struct conversion makes nil a Panic, i.e. "rejected" -
   both entry points recover, and the correspondence predicates merge the error and panic classes. *)
Definition p_group := St 2 [(0, p_id_or_alias); (1, MapList p_point)].
(* the group conversion before the repair (nil group -> &DataPointGroup{}), kept for the F24 lemmas *)
Definition p_group_before_f24 := NilTo (VStruct [VNil; VNil]) (St 2 [(0, p_id_or_alias); (1, MapList p_point)]).
Definition p_chunk := NilTo (VStruct [VInt 0; VNil]) (St 2 [(0, Copy); (1, MapList p_group)]).
Definition zero_uuid : list N := repeat 0%N 16.
Definition p_uinfo_err := St 3 [(0, Copy); (2, Copy); (1, BytesToUuid)].     (* toUpstreamOrAlias: toUUID *)
Definition p_uinfo_must := NilTo (VStruct [VBytes []; VBytes []; VBytes zero_uuid])
                                 (St 3 [(0, Copy); (2, Copy); (1, MustUuid)]). (* toUpstreamInfo: uuid.Must *)
Definition p_ext_connect := Opt (St 2 [(0, Copy); (1, Opt (St 1 [(0, ParseUuid)]))]).
Definition p_base_time := St 5 [(0, Copy); (1, Copy); (2, U32ToU8); (3, U64ToI64); (4, NanosToUtc)].
Definition p_up_result := St 4 [(0, Copy); (1, RCp); (2, Copy); (3, E0)].
Definition p_down_result := St 5 [(0, MustUuid); (1, Copy); (2, RCp); (3, Copy); (4, E0)].
Definition p_resp4 := St 4 [(0, Copy); (1, RCp); (2, Copy); (3, E0)].
Definition p_up_or_alias := Oneof [(0, (0, p_uinfo_err)); (1, (1, Copy))]%N.
Definition p_up_meta := Oneof [(0, (0, p_base_time))]%N.
Definition p_down_meta := Oneof [
  (0, (0, p_base_time));
  (1, (1, St 3 [(0, BytesToUuid); (1, Copy); (2, QSp)]));
  (2, (2, St 2 [(0, BytesToUuid); (1, Copy)]));
  (3, (3, St 3 [(0, BytesToUuid); (1, Copy); (2, QSp)]));
  (4, (4, St 4 [(0, BytesToUuid); (1, Copy); (2, Copy); (3, Copy)]));
  (5, (5, St 3 [(0, BytesToUuid); (1, MapList p_filter); (2, QSp)]));
  (6, (6, St 1 [(0, BytesToUuid)]));
  (7, (7, St 3 [(0, BytesToUuid); (1, MapList p_filter); (2, QSp)]));
  (8, (8, St 1 [(0, BytesToUuid)]))]%N.

Definition p2w_msg : conv := Oneof [
  (0, (0, St 6 [(0, Copy); (1, Copy); (2, Copy); (3, SecToDur); (4, SecToDur); (5, p_ext_connect)]));
  (1, (1, St 5 [(0, Copy); (1, Copy); (2, RCp); (3, Copy); (4, E0)]));
  (2, (2, St 3 [(0, RCp); (1, Copy); (2, E0)]));
  (3, (3, St 7 [(0, Copy); (1, Copy); (2, MsToDur); (3, SecToDur); (4, MapList id2); (5, QSp); (6, E1)]));
  (4, (4, St 8 [(0, Copy); (1, BytesToUuid); (2, Copy); (5, RCp); (6, Copy); (4, NanosToUtc); (3, MapVals id2); (7, E0)]));
  (5, (5, St 3 [(0, Copy); (1, BytesToUuid); (2, E0)]));
  (6, (6, St 5 [(0, Copy); (1, Copy); (2, RCp); (3, Copy); (4, E0)]));
  (7, (7, St 5 [(0, Copy); (1, BytesToUuid); (2, Copy); (3, Copy); (4, E1)]));
  (8, (8, p_resp4));
  (9, (9, St 8 [(0, Copy); (1, Copy); (2, MapList p_filter); (3, SecToDur); (4, MapVals id2); (5, QSp); (6, E0); (7, Copy)]));
  (10, (10, St 6 [(0, Copy); (1, BytesToUuid); (3, RCp); (4, Copy); (2, NanosToUtc); (5, E0)]));
  (11, (11, St 4 [(0, Copy); (1, BytesToUuid); (2, Copy); (3, E0)]));
  (12, (12, p_resp4));
  (13, (13, St 3 [(0, Copy); (1, BytesToUuid); (2, E0)]));
  (14, (14, p_resp4));
  (15, (15, St 7 [(0, Copy); (1, Copy); (2, Copy); (3, Copy); (4, Copy); (5, Copy); (6, E0)]));
  (16, (16, p_resp4));
  (17, (17, St 7 [(0, Copy); (1, Copy); (2, Copy); (3, Copy); (4, Copy); (5, Copy); (6, E0)]));
  (18, (18, St 2 [(0, Copy); (1, E0)]));
  (19, (19, St 2 [(0, Copy); (1, E0)]));
  (20, (20, St 4 [(0, Copy); (2, MapList id2); (1, p_chunk); (3, E0)]));
  (21, (21, St 4 [(0, Copy); (1, MapList p_up_result); (2, MapVals id2); (3, E0)]));
  (22, (22, St 4 [(0, Copy); (1, p_up_or_alias); (2, p_chunk); (3, E0)]));
  (23, (23, St 6 [(0, Copy); (1, Copy); (2, MapList p_down_result); (3, MapVals p_uinfo_must); (4, MapVals id2); (5, E0)]));
  (24, (24, St 5 [(0, Copy); (1, Copy); (2, RCp); (3, Copy); (4, E0)]));
  (25, (25, St 3 [(0, Copy); (1, p_up_meta); (2, E1)]));
  (26, (26, p_resp4));
  (27, (27, St 5 [(0, Copy); (1, Copy); (3, Copy); (2, p_down_meta); (4, E0)]));
  (28, (28, p_resp4))]%N.

(* ---------- codec wrappers: recover, byte layer, byte counts, size gate ---------- *)

(* a recovered panic becomes an error; without the recover it escapes *)
Definition recovered {A} (has_recover : bool) (o : outcome A) : outcome A :=
  match o with Panic => if has_recover then Err else Panic | _ => o end.

Section ByteLayer.
  (* the third-party byte layer (gogo-protobuf Marshal/Unmarshal, jsonpb): proto structure <-> bytes *)
  Variable marshal : value -> option (list N).
  Variable unmarshal : list N -> option value.
  Variables rec_enc rec_dec : bool.   (* has_recover flags of EncodeTo / DecodeFrom *)

  (* EncodeTo: (bytes written to the writer, reported count) *)
  Definition encode_to (m : value) : outcome (list N * Z) :=
    recovered rec_enc
      (obind (eval w2p_msg m) (fun p =>
         match marshal p with
         | Some bs => Ok (bs, Z.of_nat (length bs))
         | None => Err
         end)).
  (* DecodeFrom: (reported count, message) *)
  Definition decode_from (bs : list N) : outcome (Z * value) :=
    recovered rec_dec
      (match unmarshal bs with
       | None => Err
       | Some p => omap (fun m => (Z.of_nat (length bs), m)) (eval p2w_msg p)
       end).
End ByteLayer.

(* validateMessageSize + Transport.Read: Some true = too-large error before decoding,
   Some false = handed to the decoder *)
Definition size_gate (max len : Z) : bool :=
  if max =? 0 then false else len >? max.

(* decode (encode m) at the level of structures, with both recovers in place *)
Definition model_roundtrip (m : value) : outcome value :=
  recovered true (obind (recovered true (eval w2p_msg m)) (eval p2w_msg)).

(* ---------- correspondence cases and property predicates ---------- *)

Fixpoint value_eqb (a b : value) {struct a} : bool :=
  match a, b with
  | VNil, VNil => true
  | VInt x, VInt y => x =? y
  | VBool x, VBool y => Bool.eqb x y
  | VBytes x, VBytes y => list_N_eqb x y
  | VTime x u, VTime y w => (x =? y) && Bool.eqb u w
  | VList x, VList y =>
      (fix go (x y : list value) : bool :=
         match x, y with
         | [], [] => true
         | a1 :: x', b1 :: y' => value_eqb a1 b1 && go x' y'
         | _, _ => false
         end) x y
  | VMap x, VMap y =>
      (fix go (x : list (Z * value)) (y : list (Z * value)) : bool :=
         match x, y with
         | [], [] => true
         | (k1, a1) :: x', (k2, b1) :: y' => (k1 =? k2) && value_eqb a1 b1 && go x' y'
         | _, _ => false
         end) x y
  | VStruct x, VStruct y =>
      (fix go (x y : list value) : bool :=
         match x, y with
         | [], [] => true
         | a1 :: x', b1 :: y' => value_eqb a1 b1 && go x' y'
         | _, _ => false
         end) x y
  | VOneof t x, VOneof u y => (t =? u)%N && value_eqb x y
  | _, _ => false
  end.

Definition outcome_eqb (a b : outcome value) : bool :=
  match a, b with
  | Ok x, Ok y => value_eqb x y
  | Err, Err => true
  | Panic, Panic => true
  | _, _ => false
  end.
(* error and panic merged (both entry points recover; evaluation order between an erroring and a
   panicking field of one struct is not modelled) *)
Definition outcome_sim (a b : outcome value) : bool :=
  match a, b with
  | Ok x, Ok y => value_eqb x y
  | Ok _, _ | _, Ok _ => false
  | _, _ => true
  end.
Definition is_ok {A} (o : outcome A) : bool := match o with Ok _ => true | _ => false end.

(* empty collections identified with nil (for "decodes back to itself" comparisons) *)
Fixpoint nilnorm (v : value) : value :=
  match v with
  | VList [] => VNil
  | VMap [] => VNil
  | VList l => VList (map nilnorm l)
  | VMap l => VMap (map (fun kx => (fst kx, nilnorm (snd kx))) l)
  | VStruct l => VStruct (map nilnorm l)
  | VOneof t x => VOneof t (nilnorm x)
  | _ => v
  end.

(* C11 case *)
Record codec_case := mkCC {
  cc_msg : value;                      (* input: the wire message given to EncodeTo *)
  cc_proto : option (outcome value);   (* observed: convert.WireToProto called directly (sampled) *)
  cc_enc_ok : list bool;               (* observed: EncodeTo returned nil error [protobuf; JSON] *)
  cc_dec_pb : outcome value;           (* observed: DecodeFrom (EncodeTo m), protobuf (Err when either failed) *)
  cc_dec_js : option (outcome value);  (* same, JSON; None = the harness found it textually identical to cc_dec_pb *)
  cc_counts : list (list Z);           (* observed, per encoding that encoded and decoded: [n reported by EncodeTo; bytes written;
                                          n reported by DecodeFrom; Transport tx messages; tx bytes; rx messages; rx bytes] *)
  cc_shapes : list (list Z)            (* observed, the same encoding run again through other io.Reader / io.Writer shapes (sampled):
                                          [direction 0 = DecodeFrom, 1 = EncodeTo; encoding 0 = protobuf, 1 = JSON; shape id;
                                           n reported by the codec; bytes the codec pulled from the reader (resp. bytes the
                                           writer received); length of the encoding; 1 if the decoded message (resp. the
                                           written bytes) equals the one of the plain bytes.Reader / bytes.Buffer run, else 0] *)
}.

Definition cc_js (c : codec_case) : outcome value :=
  match cc_dec_js c with Some o => o | None => cc_dec_pb c end.

Definition codec_corr (c : codec_case) : bool :=
  let e := eval w2p_msg (cc_msg c) in
  forallb (Bool.eqb (is_ok e)) (cc_enc_ok c)
  && match cc_proto c with Some o => outcome_sim o e | None => true end
  && outcome_eqb (model_roundtrip (cc_msg c)) (cc_dec_pb c)
  && outcome_eqb (model_roundtrip (cc_msg c)) (cc_js c)
  (* the model's count (encode_count / decode_count): the length of the buffer, whatever the reader or writer *)
  && forallb (fun l => match l with [_; _; _; n; _; len; _] => n =? len | _ => false end) (cc_shapes c).

(* reader / writer shapes: the reported count is what was pulled from the reader (resp. handed to the
   writer), that is the whole encoding - the input is exactly one encoding, so the JSON decoder has
   nothing to read ahead into - and the result is the one of the plain run *)
Definition shape_ok (l : list Z) : bool :=
  match l with
  | [_; _; _; n; moved; len; same] => (n =? moved) && (moved =? len) && (same =? 1)
  | _ => false
  end.

Definition counts_ok (l : list Z) : bool :=
  match l with
  | [encn; len; decn; txm; txb; rxm; rxb] =>
      (encn =? len) && (decn =? len) && (txm =? 1) && (txb =? len) && (rxm =? 1) && (rxb =? len)
  | _ => false
  end.

(* the property, on the implementation's observations: in the documented domain the decoded
   message is the canonical form of the input under BOTH encodings; everywhere the two encodings
   agree and the reported byte counts are the buffer lengths *)
Definition codec_ok (c : codec_case) : bool :=
  (if in_range w2p_msg (cc_msg c)
   then outcome_eqb (cc_dec_pb c) (Ok (canon w2p_msg (cc_msg c)))
        && outcome_eqb (cc_js c) (Ok (canon w2p_msg (cc_msg c)))
        && forallb (fun b => b) (cc_enc_ok c)
   else true)
  && outcome_eqb (cc_dec_pb c) (cc_js c)
  && forallb counts_ok (cc_counts c)
  && forallb shape_ok (cc_shapes c)
  && (if is_ok (cc_dec_pb c) && is_ok (cc_js c) then Nat.eqb (length (cc_counts c)) 2 else true).

Definition codec_judge (c : codec_case) : N :=
  ((if codec_corr c then 0 else 1) + (if codec_ok c then 0 else 2))%N.

(* C12 case *)
Record fuzz_case := mkFC {
  fc_len : Z;                          (* input: number of bytes fed *)
  fc_max : Z;                          (* input: MaxMessageSize of the encoding.Transport used *)
  fc_parsed : option value;            (* observed: structure produced by the byte parser alone (None = rejected) *)
  fc_conv : N;                         (* observed: convert.ProtoToWire on that structure, called directly under the
                                          harness' own recover: 0 message, 1 error, 2 panic, 3 not applicable *)
  fc_dec : outcome value;              (* observed: DecodeFrom on the bytes (Panic = a panic escaped) *)
  fc_read : N;                         (* observed: Transport.Read: 0 message, 1 too-large error, 2 other error, 3 panic *)
  fc_redec : list (outcome value);     (* observed, when a message was produced: DecodeFrom (EncodeTo m) [protobuf; JSON] *)
  fc_utf8 : bool                       (* observed: every string field of the produced message is valid UTF-8 (the
                                          domain on which the JSON byte layer is faithful; the value universe does
                                          not tell strings from byte fields, so the harness reports it) *)
}.

Definition model_decode (has_recover : bool) (parsed : option value) : outcome value :=
  recovered has_recover (match parsed with None => Err | Some p => eval p2w_msg p end).

Definition class_of {A} (o : outcome A) : N := match o with Ok _ => 0 | Err => 1 | Panic => 2 end%N.

(* the model's prediction of the re-encode observations: both are decode (encode m) of the model;
   the JSON one only inside the domain of the JSON byte layer (strings valid UTF-8) *)
Definition fuzz_corr_redec (c : fuzz_case) : bool :=
  match fc_dec c with
  | Ok m => match fc_redec c with
            | [a; b] => outcome_eqb a (model_roundtrip m)
                        && (if fc_utf8 c then outcome_eqb b (model_roundtrip m) else true)
            | _ => false
            end
  | _ => match fc_redec c with [] => true | _ => false end
  end.

Definition fuzz_corr (c : fuzz_case) : bool :=
  outcome_eqb (model_decode true (fc_parsed c)) (fc_dec c)
  && match fc_parsed c with
     | Some p => let k := class_of (eval p2w_msg p) in
                 ((fc_conv c =? 0) && (k =? 0) || negb (fc_conv c =? 0) && negb (k =? 0))%N
     | None => (fc_conv c =? 3)%N
     end
  && (if size_gate (fc_max c) (fc_len c) then (fc_read c =? 1)%N
      else (fc_read c =? (if is_ok (fc_dec c) then 0 else 2))%N)
  && fuzz_corr_redec c.

(* the property on the observations alone, in two parts.
   (1) no panic escapes; the too-large error exactly for len > max <> 0, before decoding; otherwise
       Transport.Read yields a message exactly when DecodeFrom does *)
Definition fuzz_ok_safe (c : fuzz_case) : bool :=
  negb (class_of (fc_dec c) =? 2)%N
  && negb (fc_read c =? 3)%N
  && (if (negb (fc_max c =? 0)) && (fc_len c >? fc_max c) then (fc_read c =? 1)%N
      else (fc_read c =? (if is_ok (fc_dec c) then 0 else 2))%N).
(* (2) a produced message re-encodes and decodes back to itself (empty and absent collections
       identified) in both encodings *)
Definition fuzz_ok_stable (c : fuzz_case) : bool :=
  match fc_dec c with
  | Ok m => Nat.eqb (length (fc_redec c)) 2
            && forallb (fun o => match o with Ok m' => value_eqb (nilnorm m') (nilnorm m) | _ => false end) (fc_redec c)
  | _ => true
  end.
Definition fuzz_ok (c : fuzz_case) : bool := fuzz_ok_safe c && fuzz_ok_stable c.

Definition fuzz_judge (c : fuzz_case) : N :=
  ((if fuzz_corr c then 0 else 1) + (if fuzz_ok c then 0 else 2))%N.

(* Model of iscp/downstream.go on a connection that stays up: the alias tables, the two alias
   generators (wire/stream_id_generator.go), the bounded inbox between readDataPointsLoop and
   ReadDataPoints (dataPointsCh / metadataCh), ReadDataPoints = processUpstreamAlias;
   processDataPoints; wireToDownstreamChunk; pushResultAckBuffer, ReadMetadata, flushAck and Close.
   Executable; no proofs here.  The code is transliterated as it is NOW (variant [current]); the
   three repaired defects are kept as switches of a [variant] so that the refutation lemmas about
   the former code stay statements about this same model:
     - v_fx: assignUpstreamInfoAlias compares the pointed-to values.  Former code (false): POINTERS
       (finding F4): every decoded message carries a fresh pointer, modelled by the field ck_ptr;
     - v_keep: flushAck swaps the three buffers out before sending and puts them back when the send
       fails (the ack id stays consumed).  Former code (false): a failing send (event AckTick false)
       lost them (finding F14);
     - v_strict: ReadDataPoints / ReadMetadata return ErrStreamClosed first once the stream is
       closed.  Former code (false): the select could hand out a queued item after Close, whose
       result was never acknowledged (finding F32);
     - aliases are assigned before the error check of wireToDownstreamChunk, the result is pushed
       after it.
   Go maps are association lists in insertion order (Lib/ListMap.insert = overwrite or append);
   aliases are issued in increasing order, so insertion order is key order as long as a generator
   has not wrapped; the harness sorts the maps it observes by key. *)
From Coq Require Import List NArith Bool.
From Iscp Require Import Lib.ListMap.
Import ListNotations.
Open Scope N_scope.

(* a data point: (elapsed time, payload digest, payload length) *)
Definition pt := (N * N * N)%type.
Definition pt_eqb (a b : pt) : bool :=
  (fst (fst a) =? fst (fst b)) && (snd (fst a) =? snd (fst b)) && (snd a =? snd b).

(* message.DataIDOrAlias / message.UpstreamOrAlias; an upstream info (session, source node,
   stream id) and a data id (name, type) are represented by a number each *)
Inductive doa := DFull (id : N) | DAlias (a : N).
Inductive uoa := UFull (info : N) | UAlias (a : N).
Definition group := (doa * list pt)%type.
Record chunk := mkChunk {
  ck_ptr : N;                (* identity of the decoded *message.UpstreamInfo (fresh per message) *)
  ck_up : uoa;
  ck_seq : N;
  ck_groups : list group }.
Definition meta := (N * N * N)%type.        (* (source node, request id, body) *)
Definition m_src (m : meta) := fst (fst m).
Definition m_req (m : meta) := snd (fst m).
Definition m_body (m : meta) := snd m.

(* what ReadDataPoints returns: (sequence number, upstream info, [(data id, points)]) *)
Definition rgroup := (N * list pt)%type.
Definition rchunk := (N * N * list rgroup)%type.

Definition two32 : N := 4294967296.
(* wire.AliasGenerator.Next: atomic add, skipping 0 on wrap *)
Definition alias_next (g : N) : N := let n := (g + 1) mod two32 in if n =? 0 then 1 else n.
(* sequenceNumberGenerator.Next *)
Definition seq_next (g : N) : N := (g + 1) mod two32.

Record dtabs := mkT {
  t_aliases : lmap N;        (* dataIDAliases: alias -> data id *)
  t_rev : lmap N;            (* revDataIDAliases: data id -> alias *)
  t_idgen : N;               (* dataIDAliasGenerator.currentValue *)
  t_upinfos : lmap (N * N);  (* upstreamInfos: alias -> (info, pointer) *)
  t_upgen : N }.             (* upstreamInfoAliasGenerator.currentValue *)

Record dbufs := mkB {
  b_up : lmap N;             (* upstreamInfoAckBuffer: alias -> info *)
  b_id : lmap N;             (* dataIDAckBuffer: alias -> data id *)
  b_res : list (N * N);      (* resultAckBuffer: (upstream info [its stream id], sequence number) *)
  b_ackid : N }.             (* chunkAckIDSequence.Current *)

Record variant := mkV {
  v_fx : bool;               (* upstream infos compared by value (true, code as it is) / by pointer (former) *)
  v_keep : bool;             (* flushAck restores the buffers when the send fails (true, as it is) *)
  v_strict : bool }.         (* reads fail first once the stream is closed (true, as it is) *)
Definition current : variant := mkV true true true.

Record dstate := mkD {
  d_var : variant;
  d_subs : list N;           (* source nodes of the filters given to OpenDownstream, duplicates allowed:
                                the wire connection keeps ONE channel per (stream alias, node) - a second
                                subscription of the same node replaces the first - so a node is either
                                subscribed or not, and its metadata are forwarded by one goroutine, in order *)
  d_cap : N;                 (* capacity of dataPointsCh and metadataCh (1024) *)
  d_tabs : dtabs;
  d_bufs : dbufs;
  d_inbox : list chunk;      (* dataPointsCh *)
  d_metabox : list meta;     (* metadataCh *)
  d_closed : bool }.         (* Close has run: flush loop gone, stream context cancelled *)

Definition d_fx (s : dstate) : bool := v_fx (d_var s).

Definition inbox_cap : N := 1024.

(* OpenDownstream: aliases[gen.Next()] = v; revAliases[*v] = gen.CurrentValue() *)
Fixpoint prereg (ids : list N) (t : dtabs) : dtabs :=
  match ids with
  | [] => t
  | id :: r =>
      let a := alias_next (t_idgen t) in
      prereg r (mkT (insert a id (t_aliases t)) (insert id a (t_rev t)) a (t_upinfos t) (t_upgen t))
  end.

Definition dinit (v : variant) (fl : list N) (cap : N) (pre : list N) : dstate :=
  mkD v fl cap (prereg pre (mkT [] [] 0 [] 0)) (mkB [] [] [] 0) [] [] false.

(* assignUpstreamInfoAlias *)
Definition assign_up (fx : bool) (t : dtabs) (info ptr : N) : dtabs * lmap N :=
  if existsb (fun e : N * (N * N) => if fx then fst (snd e) =? info else snd (snd e) =? ptr) (t_upinfos t)
  then (t, [])
  else
    let a := alias_next (t_upgen t) in
    (mkT (t_aliases t) (t_rev t) (t_idgen t) (insert a (info, ptr) (t_upinfos t)) a, [(a, info)]).

(* processUpstreamAlias (without the push) *)
Definition process_up (fx : bool) (t : dtabs) (c : chunk) : dtabs * lmap N :=
  match ck_up c with
  | UFull i => assign_up fx t i (ck_ptr c)
  | UAlias _ => (t, [])
  end.

(* filterDataID *)
Fixpoint full_ids (gs : list group) : list N :=
  match gs with
  | [] => []
  | (DFull id, _) :: gs' => id :: full_ids gs'
  | (DAlias _, _) :: gs' => full_ids gs'
  end.

(* assignDataIDAlias *)
Fixpoint assign_ids (ids : list N) (t : dtabs) (res : lmap N) : dtabs * lmap N :=
  match ids with
  | [] => (t, res)
  | id :: ids' =>
      match lookup id (t_rev t) with
      | Some _ => assign_ids ids' t res
      | None =>
          let a := alias_next (t_idgen t) in
          assign_ids ids' (mkT (insert a id (t_aliases t)) (insert id a (t_rev t)) a (t_upinfos t) (t_upgen t))
                     (insert a id res)
      end
  end.

(* push...AckBuffer: for k, v := range m { buffer[k] = v } *)
Definition push (m buf : lmap N) : lmap N :=
  fold_left (fun b kv => insert (fst kv) (snd kv) b) m buf.

(* wireToDownstreamChunk *)
Definition resolve_up (t : dtabs) (u : uoa) : option N :=
  match u with
  | UFull i => Some i
  | UAlias a => match lookup a (t_upinfos t) with Some e => Some (fst e) | None => None end
  end.
Fixpoint resolve_groups (al : lmap N) (gs : list group) : option (list rgroup) :=
  match gs with
  | [] => Some []
  | (d, ps) :: gs' =>
      match (match d with DFull id => Some id | DAlias a => lookup a al end) with
      | None => None
      | Some id =>
          match resolve_groups al gs' with
          | None => None
          | Some r => Some ((id, ps) :: r)
          end
      end
  end.

(* error codes of a read: 0 nil, 1 "invalid upstream info alias", 2 "invalid data id alias",
   3 nothing queued (the call waits for its context), 4 ErrStreamClosed *)
Inductive dout :=
| ORead (c : option chunk) (res : option rchunk) (err : N) (newups newids : lmap N)
    (* ReadDataPoints: the chunk consumed (model-internal), the value returned, the aliases this
       call added to the tables (visible through State()) *)
| OMeta (res : option (N * N)) (err : N)           (* ReadMetadata: (source node, body) *)
| OMetaAck (req : N)                               (* DownstreamMetadataAck *)
| OAck (sent : bool) (ackid : N) (ups ids : lmap N) (results : list (N * N))   (* DownstreamChunkAck *)
| OCloseReq.                                       (* DownstreamCloseRequest *)

Inductive dev :=
| Arrive (c : chunk)        (* readDataPointsLoop offers a chunk to dataPointsCh (dropped when full) *)
| ArriveMeta (m : meta)
| Read (pick : bool)        (* ReadDataPoints; pick = the select takes the queue although the stream
                               context is done (only matters after Close, and only for the former
                               code: v_strict = false) *)
| ReadMeta (pick : bool)
| AckTick (sent : bool)     (* flushAck (ticker, or the flush at an outage); sent = the transport accepted the ack *)
| Close
| ConnClose (sent : bool).  (* the CONNECTION is closed (Conn.Close, or any connection-level close): the
                               stream context is cancelled without a DownstreamCloseRequest; the flush loop
                               makes its last flushAck, which reaches the transport or not (sent) *)

Definition set_tabs (s : dstate) (t : dtabs) : dstate :=
  mkD (d_var s) (d_subs s) (d_cap s) t (d_bufs s) (d_inbox s) (d_metabox s) (d_closed s).
Definition set_bufs (s : dstate) (b : dbufs) : dstate :=
  mkD (d_var s) (d_subs s) (d_cap s) (d_tabs s) b (d_inbox s) (d_metabox s) (d_closed s).
Definition set_inbox (s : dstate) (l : list chunk) : dstate :=
  mkD (d_var s) (d_subs s) (d_cap s) (d_tabs s) (d_bufs s) l (d_metabox s) (d_closed s).
Definition set_metabox (s : dstate) (l : list meta) : dstate :=
  mkD (d_var s) (d_subs s) (d_cap s) (d_tabs s) (d_bufs s) (d_inbox s) l (d_closed s).
Definition set_closed (s : dstate) : dstate :=
  mkD (d_var s) (d_subs s) (d_cap s) (d_tabs s) (d_bufs s) (d_inbox s) (d_metabox s) true.

(* the body of ReadDataPoints once a chunk has been taken from the queue *)
Definition do_read (s : dstate) (c : chunk) (rest : list chunk) : dstate * list dout :=
  let r1 := process_up (d_fx s) (d_tabs s) c in
  let r2 := assign_ids (full_ids (ck_groups c)) (fst r1) [] in
  let t := fst r2 in
  let b := d_bufs s in
  let b1 := mkB (push (snd r1) (b_up b)) (push (snd r2) (b_id b)) (b_res b) (b_ackid b) in
  let s1 := mkD (d_var s) (d_subs s) (d_cap s) t b1 rest (d_metabox s) (d_closed s) in
  match resolve_up t (ck_up c) with
  | None => (s1, [ORead (Some c) None 1 (snd r1) (snd r2)])
  | Some info =>
      match resolve_groups (t_aliases t) (ck_groups c) with
      | None => (s1, [ORead (Some c) None 2 (snd r1) (snd r2)])
      | Some gs =>
          (set_bufs s1 (mkB (b_up b1) (b_id b1) (b_res b1 ++ [(info, ck_seq c)]) (b_ackid b1)),
           [ORead (Some c) (Some (ck_seq c, info, gs)) 0 (snd r1) (snd r2)])
      end
  end.

(* flushAck *)
Definition flush (sent : bool) (s : dstate) : dstate * list dout :=
  let b := d_bufs s in
  match b_id b, b_res b, b_up b with
  | [], [], [] => (s, [])
  | _, _, _ =>
      let a := seq_next (b_ackid b) in
      if sent || negb (v_keep (d_var s))
      then (set_bufs s (mkB [] [] [] a), [OAck sent a (b_up b) (b_id b) (b_res b)])
      else (set_bufs s (mkB (b_up b) (b_id b) (b_res b) a), [OAck sent a (b_up b) (b_id b) (b_res b)])
  end.

(* wire/client_conn.go readDownstreamMetadataLoop: metadata of a node without table entry are discarded *)
Definition subscribed (subs : list N) (src : N) : bool := existsb (N.eqb src) subs.

Definition dstep (s : dstate) (e : dev) : dstate * list dout :=
  match e with
  | Arrive c =>
      if d_closed s then (s, [])
      else if N.of_nat (length (d_inbox s)) <? d_cap s then (set_inbox s (d_inbox s ++ [c]), [])
      else (s, [])
  | ArriveMeta m =>
      if d_closed s then (s, [])
      else if subscribed (d_subs s) (m_src m) && (N.of_nat (length (d_metabox s)) <? d_cap s)
           then (set_metabox s (d_metabox s ++ [m]), [])
           else (s, [])
  | Read pick =>
      if d_closed s && (v_strict (d_var s) || negb pick) then (s, [ORead None None 4 [] []])
      else
        match d_inbox s with
        | [] => (s, [ORead None None (if d_closed s then 4 else 3) [] []])
        | c :: rest => do_read s c rest
        end
  | ReadMeta pick =>
      if d_closed s && (v_strict (d_var s) || negb pick) then (s, [OMeta None 4])
      else
        match d_metabox s with
        | [] => (s, [OMeta None (if d_closed s then 4 else 3)])
        | m :: rest => (set_metabox s rest, [OMetaAck (m_req m); OMeta (Some (m_src m, m_body m)) 0])
        end
  | AckTick sent => if d_closed s then (s, []) else flush sent s
  | Close =>
      if d_closed s then (s, [])
      else let r := flush true s in (set_closed (fst r), snd r ++ [OCloseReq])
  | ConnClose sent =>
      if d_closed s then (s, [])
      else let r := flush sent s in (set_closed (fst r), snd r)
  end.

Fixpoint drun (s : dstate) (evs : list dev) : dstate * list dout :=
  match evs with
  | [] => (s, [])
  | e :: evs' =>
      let r := dstep s e in
      let r' := drun (fst r) evs' in
      (fst r', snd r ++ snd r')
  end.

(* ------------------------------------------------------------------------------------------ *)
(* projections of an output trace *)

Definition robs := (option rchunk * N * lmap N * lmap N)%type.     (* result, error, new ups, new ids *)
Definition ackobs := (N * lmap N * lmap N * list (N * N))%type.    (* ack id, ups, ids, results *)

Fixpoint reads_of (outs : list dout) : list robs :=
  match outs with
  | [] => []
  | ORead _ r e nu ni :: o => (r, e, nu, ni) :: reads_of o
  | _ :: o => reads_of o
  end.
Fixpoint consumed_of (outs : list dout) : list chunk :=
  match outs with
  | [] => []
  | ORead (Some c) _ _ _ _ :: o => c :: consumed_of o
  | _ :: o => consumed_of o
  end.
(* (info, sequence number) of every chunk handed to the caller *)
Fixpoint read_results (outs : list dout) : list (N * N) :=
  match outs with
  | [] => []
  | ORead _ (Some rc) _ _ _ :: o => (snd (fst rc), fst (fst rc)) :: read_results o
  | _ :: o => read_results o
  end.
Fixpoint minted_ups (outs : list dout) : lmap N :=
  match outs with
  | [] => []
  | ORead _ _ _ nu _ :: o => nu ++ minted_ups o
  | _ :: o => minted_ups o
  end.
Fixpoint minted_ids (outs : list dout) : lmap N :=
  match outs with
  | [] => []
  | ORead _ _ _ _ ni :: o => ni ++ minted_ids o
  | _ :: o => minted_ids o
  end.
(* acks handed to the transport; all of them, and those the transport accepted *)
Fixpoint acks_of (outs : list dout) : list ackobs :=
  match outs with
  | [] => []
  | OAck _ a u i r :: o => (a, u, i, r) :: acks_of o
  | _ :: o => acks_of o
  end.
Fixpoint sent_acks_of (outs : list dout) : list ackobs :=
  match outs with
  | [] => []
  | OAck true a u i r :: o => (a, u, i, r) :: sent_acks_of o
  | _ :: o => sent_acks_of o
  end.
Definition ack_id (a : ackobs) : N := fst (fst (fst a)).
Definition ack_ups_of (a : ackobs) : lmap N := snd (fst (fst a)).
Definition ack_ids_of (a : ackobs) : lmap N := snd (fst a).
Definition ack_res_of (a : ackobs) : list (N * N) := snd a.
Definition ack_results (l : list ackobs) : list (N * N) := concat (map ack_res_of l).
Definition ack_ups (l : list ackobs) : lmap N := concat (map ack_ups_of l).
Definition ack_ids (l : list ackobs) : lmap N := concat (map ack_ids_of l).
Fixpoint metas_of (outs : list dout) : list (option (N * N) * N) :=
  match outs with
  | [] => []
  | OMeta r e :: o => (r, e) :: metas_of o
  | _ :: o => metas_of o
  end.
Fixpoint metaacks_of (outs : list dout) : list N :=
  match outs with
  | [] => []
  | OMetaAck q :: o => q :: metaacks_of o
  | _ :: o => metaacks_of o
  end.
Fixpoint closereqs_of (outs : list dout) : N :=
  match outs with
  | [] => 0
  | OCloseReq :: o => 1 + closereqs_of o
  | _ :: o => closereqs_of o
  end.
(* acks handed to the transport before the first close request *)
Fixpoint acks_before_close (outs : list dout) : list ackobs :=
  match outs with
  | [] => []
  | OCloseReq :: _ => []
  | OAck _ a u i r :: o => (a, u, i, r) :: acks_before_close o
  | _ :: o => acks_before_close o
  end.

(* the table the open request carries: alias k+1 for the k-th configured data id *)
Fixpoint prereg_table (g : N) (ids : list N) : lmap N :=
  match ids with
  | [] => []
  | id :: r => (alias_next g, id) :: prereg_table (alias_next g) r
  end.

(* resolution of a chunk through a pair of announced tables (first entry for an alias wins) *)
Definition spec_resolve (tu ti : lmap N) (c : chunk) : option rchunk :=
  match (match ck_up c with UFull i => Some i | UAlias a => lookup a tu end) with
  | None => None
  | Some info =>
      match resolve_groups ti (ck_groups c) with
      | None => None
      | Some gs => Some (ck_seq c, info, gs)
      end
  end.

(* ------------------------------------------------------------------------------------------ *)
(* boolean equalities for the judge *)

Definition pts_eqb := list_beq pt pt_eqb.
Definition pairN_eqb (a b : N * N) : bool := (fst a =? fst b) && (snd a =? snd b).
Definition lmapN_eqb := list_beq (N * N) pairN_eqb.
Definition rgroup_eqb (a b : rgroup) : bool := (fst a =? fst b) && pts_eqb (snd a) (snd b).
Definition rchunk_eqb (a b : rchunk) : bool :=
  (fst (fst a) =? fst (fst b)) && (snd (fst a) =? snd (fst b)) && list_beq _ rgroup_eqb (snd a) (snd b).
Definition opt_eqb {A} (eq : A -> A -> bool) (a b : option A) : bool :=
  match a, b with Some x, Some y => eq x y | None, None => true | _, _ => false end.
Definition robs_eqb (a b : robs) : bool :=
  opt_eqb rchunk_eqb (fst (fst (fst a))) (fst (fst (fst b)))
  && (snd (fst (fst a)) =? snd (fst (fst b)))
  && lmapN_eqb (snd (fst a)) (snd (fst b)) && lmapN_eqb (snd a) (snd b).
Definition mobs_eqb (a b : option (N * N) * N) : bool :=
  opt_eqb pairN_eqb (fst a) (fst b) && (snd a =? snd b).
Fixpoint nodupb (l : list N) : bool :=
  match l with
  | [] => true
  | x :: l' => negb (existsb (N.eqb x) l') && nodupb l'
  end.
Fixpoint seq_from (n : N) (l : list N) : bool :=
  match l with
  | [] => true
  | x :: l' => (x =? n) && seq_from (n + 1) l'
  end.

(* ------------------------------------------------------------------------------------------ *)
(* correspondence case *)

Record ds_case := mkDsCase {
  dc_filters : list N;             (* source node of every DownstreamFilter given to OpenDownstream, in order *)
  dc_pre : list N;                 (* WithDownstreamDataIDs, in order (repeated ids are legal) *)
  dc_evs : list dev;               (* the history the harness drove; AckTick true = the harness
                                      waited until the broker had received everything pending *)
  (* observations on the real code *)
  dc_open : lmap N;                (* DataIDAliases of the DownstreamOpenRequest, sorted by alias *)
  dc_reads : list robs;            (* per Read event: value returned, error class, State() table growth *)
  dc_stable : bool;                (* no State() table entry ever disappeared or changed *)
  dc_metas : list (option (N * N) * N);   (* per ReadMeta event *)
  dc_metaacks : list N;            (* DownstreamMetadataAck request ids at the broker, in order *)
  dc_acks : list ackobs;           (* every DownstreamChunkAck at the broker, in order (maps sorted) *)
  dc_nbefore : N;                  (* how many of them arrived before the first close request *)
  dc_ncloses : N;                  (* DownstreamCloseRequests seen *)
  dc_last : N * N * N              (* final State(): last ack id, last data id alias, last upstream alias *)
}.

Definition ds_model (c : ds_case) : dstate * list dout :=
  drun (dinit current (dc_filters c) inbox_cap (dc_pre c)) (dc_evs c).

Definition has_close (evs : list dev) : bool :=
  existsb (fun e => match e with Close => true | _ => false end) evs.
Definition has_closing (evs : list dev) : bool :=
  existsb (fun e => match e with Close | ConnClose _ => true | _ => false end) evs.
Definition has_connclose (evs : list dev) : bool :=
  existsb (fun e => match e with ConnClose _ => true | _ => false end) evs.

(* ack batching is timer driven and never compared: only the concatenations are *)
Definition ds_corr (c : ds_case) : bool :=
  let r := ds_model c in
  let outs := snd r in
  let st := fst r in
  lmapN_eqb (t_aliases (d_tabs (dinit current (dc_filters c) inbox_cap (dc_pre c)))) (dc_open c)
  && list_beq _ robs_eqb (reads_of outs) (dc_reads c)
  && dc_stable c
  && list_beq _ mobs_eqb (metas_of outs) (dc_metas c)
  && list_beq _ N.eqb (metaacks_of outs) (dc_metaacks c)
  && list_beq _ pairN_eqb (ack_results (sent_acks_of outs)) (ack_results (dc_acks c))
  && lmapN_eqb (ack_ups (sent_acks_of outs)) (ack_ups (dc_acks c))
  && lmapN_eqb (ack_ids (sent_acks_of outs)) (ack_ids (dc_acks c))
  && (closereqs_of outs =? dc_ncloses c)
  && (if has_close (dc_evs c) then dc_nbefore c =? N.of_nat (length (dc_acks c)) else true)
  && forallb (fun a : ackobs => negb (match ack_ups_of a, ack_ids_of a, ack_res_of a with [], [], [] => true | _, _, _ => false end)) (dc_acks c)
  && (snd (fst (dc_last c)) =? t_idgen (d_tabs st)) && (snd (dc_last c) =? t_upgen (d_tabs st)).

(* --- C03 predicate: on the history given to the client and the client's observable answers only --- *)

(* the consumer keeps up: the number of queued items never exceeds the capacity, and nothing
   arrives after Close *)
Fixpoint keeps_up (subs : list N) (cap : N) (q qm : N) (closed : bool) (evs : list dev) : bool :=
  match evs with
  | [] => true
  | Arrive _ :: r => negb closed && (q <? cap) && keeps_up subs cap (q + 1) qm closed r
  | ArriveMeta m :: r =>
      negb closed &&
      (if subscribed subs (m_src m) then (qm <? cap) && keeps_up subs cap q (qm + 1) closed r
       else keeps_up subs cap q qm closed r)
  | Read _ :: r => keeps_up subs cap (q - 1) qm closed r
  | ReadMeta _ :: r => keeps_up subs cap q (qm - 1) closed r
  | AckTick _ :: r => keeps_up subs cap q qm closed r
  | Close :: r => keeps_up subs cap q qm true r
  | ConnClose _ :: r => keeps_up subs cap q qm true r
  end.

(* walk the history with a FIFO of the arrived chunks and the tables the client has shown so far *)
Fixpoint c03_walk (evs : list dev) (reads : list robs) (q : list chunk) (tu ti : lmap N) (closed : bool) : bool :=
  match evs with
  | [] => match reads with [] => true | _ => false end
  | Arrive c :: r => c03_walk r reads (q ++ [c]) tu ti closed
  | Read _ :: r =>
      match reads with
      | [] => false
      | (res, err, nu, ni) :: reads' =>
          let tu' := tu ++ nu in
          let ti' := ti ++ ni in
          if err =? 4 then closed && opt_eqb rchunk_eqb res None && c03_walk r reads' q tu' ti' closed
          else
            match q with
            | [] => (err =? 3) && opt_eqb rchunk_eqb res None && c03_walk r reads' q tu' ti' closed
            | c :: q' =>
                (match spec_resolve tu' ti' c with
                 | Some rc => opt_eqb rchunk_eqb res (Some rc) && (err =? 0)
                 | None => opt_eqb rchunk_eqb res None && ((err =? 1) || (err =? 2))
                 end) && c03_walk r reads' q' tu' ti' closed
            end
      end
  | Close :: r => c03_walk r reads q tu ti true
  | ConnClose _ :: r => c03_walk r reads q tu ti true
  | _ :: r => c03_walk r reads q tu ti closed
  end.

(* the metadata the broker sent from subscribed source nodes *)
Fixpoint arrived_metas (subs : list N) (evs : list dev) : list meta :=
  match evs with
  | [] => []
  | ArriveMeta m :: r => if subscribed subs (m_src m) then m :: arrived_metas subs r else arrived_metas subs r
  | _ :: r => arrived_metas subs r
  end.
Fixpoint returned_metas (l : list (option (N * N) * N)) : list (N * N) :=
  match l with
  | [] => []
  | (Some x, _) :: r => x :: returned_metas r
  | (None, _) :: r => returned_metas r
  end.
(* per source node FIFO pairing: the k-th item returned for a node is the k-th that arrived from
   it (same body), and the k-th DownstreamMetadataAck overall carries the request id of the k-th
   item returned *)
Fixpoint take_src (src : N) (ms : list meta) : option (meta * list meta) :=
  match ms with
  | [] => None
  | m :: r =>
      if m_src m =? src then Some (m, r)
      else match take_src src r with
           | Some (x, r') => Some (x, m :: r')
           | None => None
           end
  end.
Fixpoint meta_walk (ret : list (N * N)) (acks : list N) (arr : list meta) : bool :=
  match ret with
  | [] => match acks with [] => true | _ => false end
  | (src, body) :: ret' =>
      match acks with
      | [] => false
      | q :: acks' =>
          match take_src src arr with
          | None => false
          | Some (m, arr') => (m_body m =? body) && (m_req m =? q) && meta_walk ret' acks' arr'
          end
      end
  end.

Definition c03_ok (c : ds_case) : bool :=
  if keeps_up (dc_filters c) inbox_cap 0 0 false (dc_evs c) then
    c03_walk (dc_evs c) (dc_reads c) [] [] (dc_open c) false
    && dc_stable c
    && meta_walk (returned_metas (dc_metas c)) (dc_metaacks c) (arrived_metas (dc_filters c) (dc_evs c))
  else true.

(* --- C04 predicate --- *)

Fixpoint returned_results (reads : list robs) : list (N * N) :=
  match reads with
  | [] => []
  | (Some rc, _, _, _) :: r => (snd (fst rc), fst (fst rc)) :: returned_results r
  | _ :: r => returned_results r
  end.
Definition shown_ups (reads : list robs) : lmap N := concat (map (fun r : robs => snd (fst r)) reads).
Definition shown_ids (reads : list robs) : lmap N := concat (map (fun r : robs => snd r) reads).

(* upstream infos / data ids that reached ReadDataPoints in full form (FIFO pairing of reads and arrivals) *)
Fixpoint seen_full (evs : list dev) (reads : list robs) (q : list chunk) : list N * list N :=
  match evs with
  | [] => ([], [])
  | Arrive c :: r => seen_full r reads (q ++ [c])
  | Read _ :: r =>
      match reads with
      | [] => ([], [])
      | (_, err, _, _) :: reads' =>
          if (err =? 3) || (err =? 4) then seen_full r reads' q
          else
            match q with
            | [] => seen_full r reads' q
            | c :: q' =>
                let rest := seen_full r reads' q' in
                ((match ck_up c with UFull i => [i] | UAlias _ => [] end) ++ fst rest,
                 full_ids (ck_groups c) ++ snd rest)
            end
      end
  | _ :: r => seen_full r reads q
  end.

Fixpoint strictly_inc (n : N) (l : list N) : bool :=
  match l with
  | [] => true
  | x :: l' => (n <? x) && strictly_inc x l'
  end.
Definition no_failed_send (evs : list dev) : bool :=
  forallb (fun e => match e with AckTick false | ConnClose false => false | _ => true end) evs.

(* the stream is closed by its own Close (a close request is due) before its connection goes away *)
Fixpoint stream_close_first (evs : list dev) : bool :=
  match evs with
  | [] => false
  | Close :: _ => true
  | ConnClose _ :: _ => false
  | _ :: r => stream_close_first r
  end.

Definition c04_ok (c : ds_case) : bool :=
  let au := ack_ups (dc_acks c) in
  let ai := ack_ids (dc_acks c) in
  let seen := seen_full (dc_evs c) (dc_reads c) [] in
  (* every chunk handed to the caller is acknowledged exactly once, with its upstream's stream id
     and its sequence number, in order *)
  list_beq _ pairN_eqb (ack_results (dc_acks c)) (returned_results (dc_reads c))
  (* ack ids increase strictly from 1: exactly 1, 2, 3, ... when no send failed; an id consumed by
     a failed send is skipped, never reused *)
  && strictly_inc 0 (map ack_id (dc_acks c))
  && (last (map ack_id (dc_acks c)) 0 <=? fst (fst (dc_last c)))
  && (if no_failed_send (dc_evs c)
      then seq_from 1 (map ack_id (dc_acks c)) && (fst (fst (dc_last c)) =? N.of_nat (length (dc_acks c)))
      else true)
  (* no alias for two things, none announced twice *)
  && nodupb (map fst au) && nodupb (map fst (dc_open c ++ ai))
  (* no upstream and no data id with two aliases *)
  && nodupb (map snd au) && (if nodupb (dc_pre c) then nodupb (map snd (dc_open c ++ ai)) else true)
  (* exactly the aliases the client entered into its tables are announced, once, in order *)
  && lmapN_eqb au (shown_ups (dc_reads c)) && lmapN_eqb ai (shown_ids (dc_reads c))
  (* everything seen in full form has an announced (or pre-registered) alias *)
  && (if keeps_up (dc_filters c) inbox_cap 0 0 false (dc_evs c) then
        forallb (fun i => existsb (N.eqb i) (map snd au)) (fst seen)
        && forallb (fun i => existsb (N.eqb i) (map snd (dc_open c ++ ai))) (snd seen)
      else true)
  (* Close: one close request, and every ack before it; none when the connection was closed first *)
  && (if stream_close_first (dc_evs c) then (dc_ncloses c =? 1) && (dc_nbefore c =? N.of_nat (length (dc_acks c)))
      else dc_ncloses c =? 0).

Definition ds_judge (c : ds_case) : N :=
  (if ds_corr c then 0 else 1) + (if c03_ok c then 0 else 2) + (if c04_ok c then 0 else 4).

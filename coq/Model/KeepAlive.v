(* Model of the client keepalive of wire.ClientConn (wire/client_conn.go) as it is in /repo:

     keepAliveLoop  (l.352-376)  ticker := NewTicker(pingInterval)   -- created BEFORE the first ping
                                 for { sendPing (ctx with pingTimeout, sendRequest: replyCh entry,
                                                 transport.Write, select ctx/c.ctx/reply);
                                       on error: if c.ctx is done return, else c.Close(); return
                                       select { <-ticker.C ; <-c.ctx.Done(): return } }
     readPingLoop   (l.301-312)  every Ping from the broker is answered with Pong{RequestID: same}
     readRequestLoop(l.719-732)  a response is handed to the replyCh entry of its request id
     Connect / waitForConnected (l.114-196, 832-867) and iscp.ConnectWithConfig (iscp/conn.go
     l.108-113): defaults when the configured duration is 0, the ConnectRequest carries the
     durations, encoding/convert turns them into uint32(d.Seconds()).

   Time is discrete: one [EMs] event is one unit of time (the harness uses milliseconds; nothing
   in the model depends on the unit).  The ticker is the Go runtime ticker: fires on the grid
   start + k*interval into a channel that holds at most one value (a tick that finds the channel
   full is dropped).  The loop goroutine reacts in zero time; everything the environment decides
   (when a pong is delivered, application traffic, broker pings, link failure, Close by the owner,
   the moment the loop goroutine starts) is an event, so "for all schedules" is "for all event
   lists".  No proofs in this file. *)
From Coq Require Import List NArith Bool.
From Iscp Require Import Lib.ListMap.
Import ListNotations.
Open Scope N_scope.

Definition two32 : N := 4294967296.
Definition two31 : N := 2147483648.
Definition ns_per_s : N := 1000000000.

(* ------------------------------------------------------------------------------------------ *)
(* connect request fields (durations in nanoseconds, as time.Duration)                         *)

Definition default_interval_ns : N := 10 * ns_per_s.   (* defaultPingInterval = 10 * time.Second *)
Definition default_timeout_ns : N := ns_per_s.         (* defaultPingTimeout  = time.Second *)

(* `if d.Seconds() == 0 { d = default }` - Seconds() is 0 exactly for d = 0 *)
Definition or_default (d def : N) : N := if d =? 0 then def else d.

(* encoding/convert/wire_to_proto.go: uint32(msg.PingInterval.Seconds()).  Seconds() is
   float64(d/1s) + float64(d%1s)/1e9; the conversion truncates; the sum is exact enough for the
   truncation to be floor(d / 1s) whenever d is a whole number of seconds or d < 2^24 s
   (see [dur_exact]); uint32 of a larger value wraps mod 2^32 (amd64). *)
Definition dur_to_sec (d : N) : N := (d / ns_per_s) mod two32.
Definition dur_exact (d : N) : bool := (d mod ns_per_s =? 0) || (d <? 16777216 * ns_per_s).

Record ka_conf := mkConf { cf_interval : N; cf_timeout : N }.   (* ConnConfig.PingInterval/Timeout, ns *)

(* iscp.ConnectWithConfig then wire.Connect then waitForConnected: each applies the default to a
   zero value; the client loop and the announced value start from the same configured value *)
Definition client_interval (c : ka_conf) : N :=
  or_default (or_default (cf_interval c) default_interval_ns) default_interval_ns.
Definition client_timeout (c : ka_conf) : N :=
  or_default (or_default (cf_timeout c) default_timeout_ns) default_timeout_ns.
Definition server_interval (c : ka_conf) : N :=
  let d := or_default (cf_interval c) default_interval_ns in
  let d := if d =? 0 then default_interval_ns else d in        (* wire.Connect *)
  if d =? 0 then default_interval_ns else d.                   (* waitForConnected *)
Definition server_timeout (c : ka_conf) : N :=
  let d := or_default (cf_timeout c) default_timeout_ns in
  let d := if d =? 0 then default_timeout_ns else d in
  if d =? 0 then default_timeout_ns else d.
(* the two uint32 fields of the ConnectRequest on the wire *)
Definition announced (c : ka_conf) : N * N :=
  (dur_to_sec (server_interval c), dur_to_sec (server_timeout c)).

(* ------------------------------------------------------------------------------------------ *)
(* the timed automaton                                                                         *)

Inductive kctl :=
| KNotStarted                 (* `go conn.run()` has not reached keepAliveLoop yet *)
| KWaitReply (id dl : N)      (* inside sendRequest's select; dl = deadline of the ping context *)
| KWaitTick                   (* select { <-ticker.C ; <-c.ctx.Done() } *)
| KDone                       (* keepAliveLoop returned *)
| KPanicked.                  (* the goroutine panicked (NewTicker with a non-positive interval) *)

Inductive waiter := WPing | WApp.   (* who waits on a replyCh entry *)

Record kst := mkK {
  k_now : N;
  k_ctl : kctl;
  k_tick_next : N;                (* next fire time of the ticker (meaningful once started) *)
  k_tick_buf : bool;              (* ticker.C holds a value *)
  k_nextid : N;                   (* idGenerator.currentValue *)
  k_replies : lmap waiter;        (* keys of c.replyCh *)
  k_closed : bool;                (* c.ctx is cancelled (ClientConn.Close was called) *)
  k_link : bool                   (* transport.Write succeeds *)
}.

Inductive kev :=
| EStart                (* the keepAliveLoop goroutine starts running *)
| EMs                   (* one unit of time passes *)
| EPong (id : N)        (* readRequestLoop handles a Pong carrying this request id *)
| EResp (id : N)        (* readRequestLoop handles a response of another type with this id *)
| EBrokerPing (id : N)  (* readPingLoop handles a Ping sent by the broker *)
| EAppReq               (* an API call sends a request (idGenerator.Next, replyCh entry, Write) *)
| EAppMsg               (* an API call writes a non-request message (chunk, ack, call) *)
| EInMsg                (* any other inbound message (chunk ack, downstream chunk, metadata, call) *)
| EAppClose             (* ClientConn.Close called by the owner (Conn.Close, Conn.reconnect) *)
| ELinkFail.            (* transport.Write starts failing (closed by the peer / Disconnect message) *)

Inductive kout :=
| OPing (id : N)        (* a Ping is written *)
| OPong (id : N)        (* a Pong is written (answer to a broker ping) *)
| OClose                (* keepAliveLoop gives the connection up: logs "Ping timeout", c.Close() *)
| OPanic                (* the keepalive goroutine panics *)
| OReq (id : N)         (* an application request is written *)
| OMsg                  (* an application message is written *)
| OReply (id : N).      (* a response is handed to an application caller *)

(* the connection after wire.Connect returned: the ConnectRequest has used request id 0 *)
Definition kinit : kst := mkK 0 KNotStarted 0 false 2 [] false true.

Definition set_ctl (s : kst) (c : kctl) : kst :=
  mkK (k_now s) c (k_tick_next s) (k_tick_buf s) (k_nextid s) (k_replies s) (k_closed s) (k_link s).

(* sendPing + the error branch of keepAliveLoop.  The reply, if any, arrives by a later event. *)
Definition send_ping (TO : N) (s : kst) : kst * list kout :=
  let id := k_nextid s in                                   (* c.idGenerator.Next() *)
  let nid := (id + 2) mod two32 in
  let reps := insert id WPing (k_replies s) in              (* c.replyCh[id] = reply *)
  let mk c closed := mkK (k_now s) c (k_tick_next s) (k_tick_buf s) nid reps closed (k_link s) in
  if k_closed s then (mk KDone true, [])                    (* Write fails or c.ctx done: return *)
  else if negb (k_link s) then (mk KDone true, [OClose])    (* Write error, c.ctx not done: Close *)
  else if TO =? 0 then (mk KDone true, [OPing id; OClose])  (* context already expired *)
  else (mk (KWaitReply id (k_now s + TO)) false, [OPing id]).

(* select { <-ticker.C ; <-c.ctx.Done() } right after a successful ping (c.ctx is not done here) *)
Definition after_reply (TO : N) (s : kst) : kst * list kout :=
  if k_tick_buf s then
    send_ping TO (mkK (k_now s) KWaitTick (k_tick_next s) false (k_nextid s) (k_replies s) (k_closed s) (k_link s))
  else (set_ctl s KWaitTick, []).

Definition running (c : kctl) : bool :=
  match c with KWaitReply _ _ | KWaitTick => true | _ => false end.

(* a response with request id [id] reaches readRequestLoop; [pong] = it is a *message.Pong *)
Definition on_response (TO : N) (s : kst) (id : N) (pong : bool) : kst * list kout :=
  if k_closed s then (s, []) else
  match lookup id (k_replies s) with
  | None => (s, [])
  | Some w =>
      let s1 := mkK (k_now s) (k_ctl s) (k_tick_next s) (k_tick_buf s) (k_nextid s)
                    (remove id (k_replies s)) (k_closed s) (k_link s) in
      match w with
      | WApp => (s1, [OReply id])
      | WPing =>
          match k_ctl s with
          | KWaitReply id' _ =>
              if id' =? id then
                if pong then after_reply TO s1
                else (* typedResponse[*Pong] fails: sendPing returns an error, c.ctx is not done:
                        "Ping timeout, disconnect", c.Close() *)
                  (mkK (k_now s) KDone (k_tick_next s) (k_tick_buf s) (k_nextid s)
                       (remove id (k_replies s)) true (k_link s), [OClose])
              else (s1, [])
          | _ => (s1, [])
          end
      end
  end.

Definition kstep (I TO : N) (s : kst) (e : kev) : kst * list kout :=
  match e with
  | EStart =>
      match k_ctl s with
      | KNotStarted =>
          if I =? 0 then (set_ctl s KPanicked, [OPanic])     (* time.NewTicker panics *)
          else send_ping TO (mkK (k_now s) KWaitTick (k_now s + I) false (k_nextid s) (k_replies s)
                                 (k_closed s) (k_link s))
      | _ => (s, [])
      end
  | EMs =>
      let now' := k_now s + 1 in
      if running (k_ctl s) then
        let fire := now' =? k_tick_next s in
        let buf := k_tick_buf s || fire in
        let nxt := if fire then k_tick_next s + I else k_tick_next s in
        match k_ctl s with
        | KWaitReply id dl =>
            if dl <=? now' then                               (* ctx.Done(): DeadlineExceeded *)
              (mkK now' KDone nxt buf (k_nextid s) (k_replies s) true (k_link s), [OClose])
            else (mkK now' (k_ctl s) nxt buf (k_nextid s) (k_replies s) (k_closed s) (k_link s), [])
        | _ =>                                                (* KWaitTick *)
            if buf then
              send_ping TO (mkK now' KWaitTick nxt false (k_nextid s) (k_replies s) (k_closed s) (k_link s))
            else (mkK now' KWaitTick nxt buf (k_nextid s) (k_replies s) (k_closed s) (k_link s), [])
        end
      else (mkK now' (k_ctl s) (k_tick_next s) (k_tick_buf s) (k_nextid s) (k_replies s) (k_closed s) (k_link s), [])
  | EPong id => on_response TO s id true
  | EResp id => on_response TO s id false
  | EBrokerPing id =>
      if k_closed s then (s, []) else if k_link s then (s, [OPong id]) else (s, [])
  | EAppReq =>
      let id := k_nextid s in
      (mkK (k_now s) (k_ctl s) (k_tick_next s) (k_tick_buf s) ((id + 2) mod two32)
           (insert id WApp (k_replies s)) (k_closed s) (k_link s),
       if k_closed s then [] else if k_link s then [OReq id] else [])
  | EAppMsg => (s, if k_closed s then [] else if k_link s then [OMsg] else [])
  | EInMsg => (s, [])
  | EAppClose =>
      (mkK (k_now s) (if running (k_ctl s) then KDone else k_ctl s) (k_tick_next s) (k_tick_buf s)
           (k_nextid s) (k_replies s) true (k_link s), [])
  | ELinkFail =>
      (mkK (k_now s) (k_ctl s) (k_tick_next s) (k_tick_buf s) (k_nextid s) (k_replies s) (k_closed s) false, [])
  end.

Fixpoint krun (I TO : N) (s : kst) (evs : list kev) : kst * list kout :=
  match evs with
  | [] => (s, [])
  | e :: r => (fst (krun I TO (fst (kstep I TO s e)) r),
               snd (kstep I TO s e) ++ snd (krun I TO (fst (kstep I TO s e)) r))
  end.

(* ---- observation helpers used by the theorems ---- *)
Fixpoint count_ms (evs : list kev) : N :=
  match evs with [] => 0 | EMs :: r => 1 + count_ms r | _ :: r => count_ms r end.
Fixpoint count_appreq (evs : list kev) : N :=
  match evs with [] => 0 | EAppReq :: r => 1 + count_appreq r | _ :: r => count_appreq r end.
Fixpoint bpings (evs : list kev) : list N :=
  match evs with [] => [] | EBrokerPing id :: r => id :: bpings r | _ :: r => bpings r end.
Fixpoint pongs_of (o : list kout) : list N :=
  match o with [] => [] | OPong id :: r => id :: pongs_of r | _ :: r => pongs_of r end.
Fixpoint pings_of (o : list kout) : list N :=
  match o with [] => [] | OPing id :: r => id :: pings_of r | _ :: r => pings_of r end.
Definition is_response (e : kev) : bool := match e with EPong _ | EResp _ => true | _ => false end.
Definition kout_is_close (o : kout) : bool := match o with OClose => true | _ => false end.
Definition kout_is_panic (o : kout) : bool := match o with OPanic => true | _ => false end.

(* ------------------------------------------------------------------------------------------ *)
(* closed-loop simulation against a scripted broker (what the harness runs in real time)       *)

Definition optN_eqb (a b : option N) : bool :=
  match a, b with Some x, Some y => x =? y | None, None => true | _, _ => false end.

(* script: how long after receiving the j-th ping (0-based) the broker sends the pong; None = it
   does not answer.  [sc_rest] applies to every ping beyond the list. *)
Record kscript := mkScript {
  sc_delays : list (option N);
  sc_rest : option N;
  sc_linkfail : option N      (* the link dies loudly at this time: writes fail, nothing is delivered *)
}.
Definition script_delay (sc : kscript) (j : nat) : option N := nth j (sc_delays sc) (sc_rest sc).

Record ksim := mkSim {
  sm_st : kst;
  sm_pending : list (N * N);   (* (due time, request id) pongs under way *)
  sm_nping : nat;              (* pings the broker has received *)
  sm_ptimes : list N;          (* their times, newest first *)
  sm_close : option N          (* time at which the loop closed the connection *)
}.

(* feed the outputs of one step to the broker *)
Fixpoint sim_outs (sc : kscript) (now : N) (o : list kout) (m : ksim) : ksim :=
  match o with
  | [] => m
  | OPing id :: r =>
      let pend := match script_delay sc (sm_nping m) with
                  | Some d => sm_pending m ++ [(now + d, id)]
                  | None => sm_pending m end in
      sim_outs sc now r (mkSim (sm_st m) pend (S (sm_nping m)) (now :: sm_ptimes m) (sm_close m))
  | OClose :: r =>
      sim_outs sc now r (mkSim (sm_st m) (sm_pending m) (sm_nping m) (sm_ptimes m)
                               (match sm_close m with None => Some now | c => c end))
  | _ :: r => sim_outs sc now r m
  end.

Definition sim_ev (I TO : N) (sc : kscript) (e : kev) (m : ksim) : ksim :=
  let so := kstep I TO (sm_st m) e in
  sim_outs sc (k_now (fst so)) (snd so)
           (mkSim (fst so) (sm_pending m) (sm_nping m) (sm_ptimes m) (sm_close m)).

(* deliver every pong that is due, in the order the broker sent them *)
Fixpoint sim_deliver (I TO : N) (sc : kscript) (due : list (N * N)) (m : ksim) : ksim :=
  match due with
  | [] => m
  | (_, id) :: r =>
      sim_deliver I TO sc r (if k_link (sm_st m) then sim_ev I TO sc (EPong id) m else m)
  end.

Definition sim_round (I TO : N) (sc : kscript) (m : ksim) : ksim :=
  let now := k_now (sm_st m) in
  let due := filter (fun p => fst p <=? now) (sm_pending m) in
  let rest := filter (fun p => negb (fst p <=? now)) (sm_pending m) in
  sim_deliver I TO sc due (mkSim (sm_st m) rest (sm_nping m) (sm_ptimes m) (sm_close m)).

(* one unit of time: deliver what is due (twice: a pong may release a buffered tick whose ping is
   answered at once), then let the clock advance *)
Definition sim_ms (I TO : N) (sc : kscript) (m : ksim) : ksim :=
  let m := if optN_eqb (sc_linkfail sc) (Some (k_now (sm_st m))) then sim_ev I TO sc ELinkFail m else m in
  sim_ev I TO sc EMs (sim_round I TO sc (sim_round I TO sc m)).

Definition simulate (I TO : N) (sc : kscript) (horizon : N) : ksim :=
  N.iter horizon (sim_ms I TO sc)
         (sim_ev I TO sc EStart (mkSim kinit [] O [] None)).

(* ------------------------------------------------------------------------------------------ *)
(* correspondence cases (h-keepalive)                                                          *)

Record ka_case := mkKaCase {
  (* ---- input ---- *)
  kc_kind : N;                       (* 0 = timing case, 1 = announced-values case *)
  kc_interval : N;                   (* configured ping interval, ms (timing) / ns (announce) *)
  kc_timeout : N;                    (* configured ping timeout,  ms (timing) / ns (announce) *)
  kc_script : kscript;               (* intended pong delays, ms *)
  kc_horizon : N;                    (* observation window after the first ping, ms *)
  kc_slack : N;                      (* allowed lateness of the real clock, ms *)
  kc_early : N;                      (* allowed earliness (clock rounding, first-ping latency), ms *)
  kc_guard : N;                      (* a pong sent within timeout +- guard may count either way, ms *)
  kc_bpings : list N;                (* request ids of the pings the broker sent *)
  (* ---- observation on the real code (times in ms since the first ping reached the broker) ---- *)
  kc_ptimes : list N;                (* arrival time of every client ping of the first connection *)
  kc_pongs : list (option N);        (* when the broker sent the pong for ping j (None = never) *)
  kc_pids_ok : bool;                 (* client ping ids are even, distinct, increasing *)
  kc_close : option N;               (* when the client called Close on the transport of the first connection *)
  kc_echo : list N;                  (* request ids of the pongs the client sent, in order *)
  kc_disc_event : bool;              (* DisconnectedEventHandler fired *)
  kc_reconnect : bool;               (* a second ConnectRequest reached the broker *)
  kc_recovered : option N;           (* when both the disconnected event and the second ConnectRequest had been seen *)
  kc_req_ok : bool;                  (* the ordinary request issued at the end of the window succeeded (true if none was issued) *)
  kc_announced : N * N               (* PingInterval / PingTimeout in the first ConnectRequest *)
}.

Definition last_or (d : N) (l : list N) : N := last l d.

(* time of the last pong the broker sent no later than [t] *)
Fixpoint last_pong_before (t : N) (pongs : list (option N)) (acc : N) : N :=
  match pongs with
  | [] => acc
  | Some p :: r => last_pong_before t r (if (p <=? t) && (acc <=? p) then p else acc)
  | None :: r => last_pong_before t r acc
  end.

(* every observed ping matches, position by position, a ping of the model (not earlier than
   [early] before it, not later than [slack] after it); the model may have more *)
Fixpoint times_prefix (early slack : N) (model obs : list N) : bool :=
  match obs, model with
  | [], _ => true
  | o :: obs', m :: model' => (m <=? o + early) && (o <=? m + slack) && times_prefix early slack model' obs'
  | _ :: _, [] => false
  end.

(* The script as the broker realised it: the delay between the arrival of ping j and the moment
   its pong was sent (None = not sent: intended, or the send failed because the client or the link
   was gone).  A pong sent clearly before the deadline counts as in time, one sent clearly after
   it as missing; for one sent within [guard] of the deadline the race in sendRequest's select
   (reply against ctx.Done()) is resolved by what the client did: it counts as in time iff the
   client sent a further ping. *)
Fixpoint realised (TO guard : N) (ptimes : list N) (pongs : list (option N)) : list (option N) :=
  match ptimes, pongs with
  | t :: pt', p :: pongs' =>
      (match p with
       | None => None
       | Some p =>
           let d := p - t in
           if d + guard <? TO then Some d
           else if TO + guard <=? d then None
           else match pt' with
                | _ :: _ => Some (N.min d (TO - 1))
                | [] => None
                end
       end) :: realised TO guard pt' pongs'
  | _, _ => []
  end.

(* The model is simulated on the realised script (beyond the observed pings: the intended
   behaviour for the rest, and the intended link failure) a little beyond the observation window.  Every
   ping the broker saw must be a ping of the model; every ping the model sends early enough to be
   seen within the window even when [slack] late must have been seen; if the model closes early
   enough the implementation must have closed (window around the model's time) after exactly the
   model's pings; if the model never closes the implementation must not have. *)
Definition ka_corr (c : ka_case) : bool :=
  if kc_kind c =? 0 then
    let H := kc_horizon c in
    let sc := mkScript (realised (kc_timeout c) (kc_guard c) (kc_ptimes c) (kc_pongs c))
                       (sc_rest (kc_script c)) (sc_linkfail (kc_script c)) in
    let m := simulate (kc_interval c) (kc_timeout c) sc (H + kc_early c) in
    let mp := rev (sm_ptimes m) in
    let near tm t := (tm <=? t + kc_early c) && (t <=? tm + kc_slack c) in
    times_prefix (kc_early c) (kc_slack c) mp (kc_ptimes c)
    && Nat.leb (length (filter (fun t => t + kc_slack c <=? H) mp)) (length (kc_ptimes c))
    && match sm_close m, kc_close c with
       | Some tm, Some t => near tm t && Nat.eqb (length mp) (length (kc_ptimes c))
       | Some tm, None => negb (tm + kc_slack c <=? H)
       | None, None => true
       | None, Some _ => false
       end
    && (let a := announced (mkConf (kc_interval c * 1000000) (kc_timeout c * 1000000)) in
        (fst a =? fst (kc_announced c)) && (snd a =? snd (kc_announced c)))
  else
    let a := announced (mkConf (kc_interval c) (kc_timeout c)) in
    (fst a =? fst (kc_announced c)) && (snd a =? snd (kc_announced c)).

(* C15 on the implementation's own observation:
   - detection: an unanswered ping exists => the client closed, no later than
     T + interval + timeout (+ slack), T = the last pong sent before the close (0 if none), and
     recovery started (disconnected event, a new ConnectRequest); with a link that dies loudly
     at time f the close is not before min(f, last ping + timeout);
   - no false positive: every ping but the last was answered before the next one was sent; if the
     client closed, the last ping was not answered within timeout (- early) of the earliest moment
     it can have been written (= when the previous pong was sent); closing never happens before
     that moment + timeout - early;
   - echo: the pongs the client sent carry exactly the ids of the broker's pings, in order;
   - inbound flood cases (more unconsumed inbound items than the client's queues hold while every
     ping is answered at once) are alive cases: no close, no disconnected event, no reconnect, and
     an ordinary request issued afterwards succeeds;
   - announced: whole seconds of the configured values (defaults for 0). *)
Fixpoint answered_before_next (ptimes : list N) (pongs : list (option N)) : bool :=
  match ptimes, pongs with
  | _ :: ((t2 :: _) as pt'), Some p :: pongs' => (p <=? t2) && answered_before_next pt' pongs'
  | _ :: ((_ :: _)), None :: _ => false
  | _ :: (_ :: _), [] => false
  | _, _ => true
  end.

Definition c15_ok (c : ka_case) : bool :=
  if kc_kind c =? 0 then
    let I := kc_interval c in let TO := kc_timeout c in
    let n := length (kc_ptimes c) in
    let lastp := last_or 0 (kc_ptimes c) in
    let lastpong := nth (n - 1) (kc_pongs c) None in
    (* the last ping was written no earlier than [base]: after the previous pong was sent (the
       arrival time of a ping at the broker is only an upper bound of the time it was written) *)
    let base := match n with
                | S (S k) => match nth k (kc_pongs c) None with Some p => p | None => 0 end
                | _ => 0
                end in
    (1 <=? N.of_nat n)
    && kc_pids_ok c
    && answered_before_next (kc_ptimes c) (kc_pongs c)
    && match kc_close c with
       | Some t =>
           let T := last_pong_before t (kc_pongs c) 0 in
           (t <=? T + I + TO + kc_slack c)                       (* detection bound *)
           && match sc_linkfail (kc_script c) with
              | Some f => (f <=? t + kc_early c) || (base + TO <=? t + kc_early c)   (* not before the link died *)
              | None =>
                  (base + TO <=? t + kc_early c)                 (* not before the timeout *)
                  && match lastpong with                         (* the failing ping was not answered in time:
                                                                    neither counted from the earliest moment it can
                                                                    have been written nor from its arrival at the broker *)
                     | Some p => (base + TO <=? p + kc_early c) && (lastp + TO <=? p + kc_early c)
                     | None => true
                     end
              end
           && kc_disc_event c && kc_reconnect c                  (* recovery started ... *)
           && match kc_recovered c with                          (* ... within the bound, however long the
                                                                    transport's Close takes *)
              | Some r => r <=? T + I + TO + kc_slack c
              | None => false
              end
       | None =>
           (* still connected: the last ping is answered or its deadline (+slack) is not over *)
           match lastpong with
           | Some _ => true
           | None => kc_horizon c <=? lastp + TO + kc_slack c
           end
           && negb (kc_disc_event c) && negb (kc_reconnect c)
       end
    && list_beq _ N.eqb (kc_echo c) (kc_bpings c)
    && kc_req_ok c
    && (fst (kc_announced c) =? (if I =? 0 then 10 else (I / 1000) mod two32))
    && (snd (kc_announced c) =? (if TO =? 0 then 1 else (TO / 1000) mod two32))
  else
    let cf := mkConf (kc_interval c) (kc_timeout c) in
    let want d def := if d =? 0 then def / ns_per_s else (d / ns_per_s) mod two32 in
    (fst (kc_announced c) =? want (kc_interval c) default_interval_ns)
    && (snd (kc_announced c) =? want (kc_timeout c) default_timeout_ns).

Definition ka_judge (c : ka_case) : N :=
  (if ka_corr c then 0 else 1) + (if c15_ok c then 0 else 2).

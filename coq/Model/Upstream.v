(* Model of iscp/upstream.go on a connection that stays up: flushLoop, flush, toUpstreamChunk,
   data.go toUpstreamDataPointGroups, processDataIDAliases, the ack hook fan-out, Close.
   Executable; no proofs here.  Go maps are association lists kept sorted by key (the harness
   sorts what it observes the same way, since Go's iteration order is random). *)
From Coq Require Import List NArith Bool.
From Iscp Require Import Lib.ListMap.
Import ListNotations.
Open Scope N_scope.

(* a data point: (elapsed time = unique identity, payload digest, payload length) *)
Definition pt := (N * N * N)%type.
Definition pt_len (p : pt) : N := snd p.
Definition pt_eqb (a b : pt) : bool :=
  (fst (fst a) =? fst (fst b)) && (snd (fst a) =? snd (fst b)) && (snd a =? snd b).

Inductive policy :=
| PNone | PInterval | PSize (n : N) | PIntervalOrSize (n : N) | PImmediate.

(* FlushPolicy.IsFlush(uint32(sendBufferPayloadSize)) *)
Definition is_flush (p : policy) (size : N) : bool :=
  let s32 := size mod 4294967296 in
  match p with
  | PNone | PInterval => false
  | PSize n | PIntervalOrSize n => n <? s32
  | PImmediate => true
  end.

(* sorted association list: data id -> points (sendBuffer) *)
Fixpoint buf_add (id : N) (ps : list pt) (b : list (N * list pt)) : list (N * list pt) :=
  match b with
  | [] => [(id, ps)]
  | (k, v) :: b' =>
      if id <? k then (id, ps) :: b
      else if id =? k then (k, v ++ ps) :: b'
      else (k, v) :: buf_add id ps b'
  end.

Definition sum_len (ps : list pt) : N := fold_right (fun p a => pt_len p + a) 0 ps.

(* a group as transmitted: data id in full form (inl) or alias (inr), with its points *)
Definition wgroup := (N * (bool * N) * list pt)%type.   (* (data id [decoded], (is_alias, alias), points) *)

Record ustate := mkU {
  u_buf : list (N * list pt);
  u_size : N;           (* sendBufferPayloadSize *)
  u_count : N;          (* sendBufferDataPointsCount *)
  u_seq : N;            (* last issued sequence number *)
  u_total : N;          (* totalDataPoints *)
  u_rev : lmap N;       (* revDataIDAliases: data id -> alias *)
  u_pol : policy;
  u_closed : bool;      (* close request emitted / draining *)
  u_failed : bool       (* validateState refused (total overflow or sequence exhausted) *)
}.

Inductive uout :=
| OChunk (seq : N) (groups : list wgroup) (ids : list N)   (* UpstreamChunk: groups sorted by data id; DataIDs *)
| OHookSend (seq : N) (groups : list (N * list pt))          (* SendDataPointsHooker.HookBefore *)
| OHookAck (seq code : N)                                    (* ReceiveAckHooker.HookAfter *)
| OCloseReq (total seq : N).                                 (* UpstreamCloseRequest *)

Inductive uop :=
| Write (id : N) (ps : list pt)
| Tick
| Flush
| Alias (m : list (N * N))        (* ack part 1: (alias, data id) pairs, applied by readAliasLoop *)
| Results (rs : list (N * N))     (* ack part 2: (sequence number, result code), readResultLoop *)
| Close.

Definition to_wgroup (rev : lmap N) (g : N * list pt) : wgroup :=
  match lookup (fst g) rev with
  | Some a => (fst g, (true, a), snd g)
  | None => (fst g, (false, 0), snd g)
  end.

Definition unaliased_ids (rev : lmap N) (b : list (N * list pt)) : list N :=
  map fst (filter (fun g => match lookup (fst g) rev with Some _ => false | None => true end) b).

Definition max_u32 : N := 4294967295.
Definition two64 : N := 18446744073709551616.

(* flush(): returns new state and outputs *)
Definition flush (s : ustate) : ustate * list uout :=
  match u_buf s with
  | [] => (s, [])
  | _ =>
      if (two64 <=? u_total s + u_count s) || (u_seq s =? max_u32)
      then (mkU (u_buf s) (u_size s) (u_count s) (u_seq s) (u_total s) (u_rev s) (u_pol s) true true, [])
      else
        let seq := u_seq s + 1 in
        (mkU [] 0 0 seq (u_total s + u_count s) (u_rev s) (u_pol s) (u_closed s) (u_failed s),
         [OChunk seq (map (to_wgroup (u_rev s)) (u_buf s)) (unaliased_ids (u_rev s) (u_buf s));
          OHookSend seq (u_buf s)])
  end.

(* processDataIDAliases: an id that already has an alias keeps it *)
Fixpoint apply_aliases (m : list (N * N)) (rev : lmap N) : lmap N :=
  match m with
  | [] => rev
  | (a, id) :: m' =>
      match lookup id rev with
      | Some _ => apply_aliases m' rev
      | None => apply_aliases m' (insert id a rev)
      end
  end.

(* return code of the API call: 0 = nil, 1 = error *)
Definition ustep (s : ustate) (o : uop) : ustate * list uout * N :=
  match o with
  | Write id ps =>
      if u_closed s then (s, [], 1)
      else
        let s1 := mkU (buf_add id ps (u_buf s)) (u_size s + sum_len ps) (u_count s + N.of_nat (length ps))
                      (u_seq s) (u_total s) (u_rev s) (u_pol s) (u_closed s) (u_failed s) in
        if is_flush (u_pol s) (u_size s1)
        then let r := flush s1 in (fst r, snd r, 0)
        else (s1, [], 0)
  | Tick => if u_closed s then (s, [], 0) else let r := flush s in (fst r, snd r, 0)
  | Flush => if u_closed s then (s, [], 1) else let r := flush s in (fst r, snd r, if u_failed (fst r) then 1 else 0)
  | Alias m => (mkU (u_buf s) (u_size s) (u_count s) (u_seq s) (u_total s) (apply_aliases m (u_rev s))
                    (u_pol s) (u_closed s) (u_failed s), [], 0)
  | Results rs => (s, map (fun r => OHookAck (fst r) (snd r)) rs, 0)
  | Close =>
      if u_closed s then (s, [], 1)
      else
        let r := flush s in
        let s' := fst r in
        (mkU (u_buf s') (u_size s') (u_count s') (u_seq s') (u_total s') (u_rev s') (u_pol s') true (u_failed s'),
         snd r ++ [OCloseReq (u_total s') (u_seq s')], 0)
  end.

(* per-operation snapshot, as Upstream.State() shows it *)
Definition snapshot := (N * N * list (N * list pt))%type.   (* (last seq, total, buffer) *)
Definition snap (s : ustate) : snapshot := (u_seq s, u_total s, u_buf s).

Record ures := mkRes { r_state : ustate; r_outs : list uout; r_snaps : list snapshot; r_rets : list N }.

Fixpoint urun (s : ustate) (ops : list uop) : ures :=
  match ops with
  | [] => mkRes s [] [] []
  | o :: ops' =>
      let r := ustep s o in
      let s' := fst (fst r) in
      let rest := urun s' ops' in
      mkRes (r_state rest) (snd (fst r) ++ r_outs rest) (snap s' :: r_snaps rest) (snd r :: r_rets rest)
  end.

Definition uinit (p : policy) (rev0 : lmap N) : ustate := mkU [] 0 0 0 0 rev0 p false false.

(* ------------------------------------------------------------------------------------------ *)
(* projections of an output trace *)

Definition chunks_of (outs : list uout) : list (N * list wgroup * list N) :=
  concat (map (fun o => match o with OChunk s g i => [(s, g, i)] | _ => [] end) outs).
Definition sendhooks_of (outs : list uout) : list (N * list (N * list pt)) :=
  concat (map (fun o => match o with OHookSend s g => [(s, g)] | _ => [] end) outs).
Definition ackhooks_of (outs : list uout) : list (N * N) :=
  concat (map (fun o => match o with OHookAck s c => [(s, c)] | _ => [] end) outs).
Definition closereq_of (outs : list uout) : list (N * N) :=
  concat (map (fun o => match o with OCloseReq t s => [(t, s)] | _ => [] end) outs).

(* points of data id [id] in one chunk, using the decoded id of each group *)
Definition chunk_pts (id : N) (c : N * list wgroup * list N) : list pt :=
  concat (map (fun g : wgroup => if fst (fst g) =? id then snd g else []) (snd (fst c))).
Definition chunks_pts (id : N) (cs : list (N * list wgroup * list N)) : list pt :=
  concat (map (chunk_pts id) cs).
Definition chunk_count (c : N * list wgroup * list N) : N :=
  fold_right (fun g a => N.of_nat (length (snd g)) + a) 0 (snd (fst c)).

(* points of accepted writes to [id] (ops paired with their return codes) *)
Fixpoint accepted_pts (id : N) (ops : list uop) (rets : list N) : list pt :=
  match ops, rets with
  | Write k ps :: ops', r :: rets' =>
      (if (k =? id) && (r =? 0) then ps else []) ++ accepted_pts id ops' rets'
  | _ :: ops', _ :: rets' => accepted_pts id ops' rets'
  | _, _ => []
  end.
Fixpoint accepted_count (ops : list uop) (rets : list N) : N :=
  match ops, rets with
  | Write k ps :: ops', r :: rets' => (if r =? 0 then N.of_nat (length ps) else 0) + accepted_count ops' rets'
  | _ :: ops', _ :: rets' => accepted_count ops' rets'
  | _, _ => 0
  end.

Definition buf_pts (id : N) (b : list (N * list pt)) : list pt :=
  concat (map (fun g => if fst g =? id then snd g else []) b).
Definition buf_count (b : list (N * list pt)) : N :=
  fold_right (fun g a => N.of_nat (length (snd g)) + a) 0 b.

(* ------------------------------------------------------------------------------------------ *)
(* correspondence case + property predicates on observations *)

Definition pts_eqb := list_beq pt pt_eqb.
Definition group_eqb (a b : N * list pt) : bool := (fst a =? fst b) && pts_eqb (snd a) (snd b).
Definition wgroup_eqb (a b : wgroup) : bool :=
  (fst (fst a) =? fst (fst b)) && Bool.eqb (fst (snd (fst a))) (fst (snd (fst b)))
  && (snd (snd (fst a)) =? snd (snd (fst b))) && pts_eqb (snd a) (snd b).
Definition chunk_eqb (a b : N * list wgroup * list N) : bool :=
  (fst (fst a) =? fst (fst b)) && list_beq _ wgroup_eqb (snd (fst a)) (snd (fst b))
  && list_beq _ N.eqb (snd a) (snd b).
Definition snap_eqb (a b : snapshot) : bool :=
  (fst (fst a) =? fst (fst b)) && (snd (fst a) =? snd (fst b)) && list_beq _ group_eqb (snd a) (snd b).
Definition pairN_eqb (a b : N * N) : bool := (fst a =? fst b) && (snd a =? snd b).

Record up_case := mkUpCase {
  uc_pol : policy;
  uc_rev0 : list (N * N);              (* (data id, alias) handed out in the open response *)
  uc_ops : list uop;
  (* observations on the real code *)
  uc_rets : list N;                    (* 0 = nil, 1 = error, per op *)
  uc_snaps : list snapshot;            (* Upstream.State() after each op *)
  uc_chunks : list (N * list wgroup * list N);   (* chunks at the broker, by sequence number *)
  uc_sendhooks : list (N * list (N * list pt));  (* by sequence number *)
  uc_ackhooks : list (N * N);          (* in delivery order *)
  uc_close : list (N * N);             (* close requests seen: (total, final seq) *)
  uc_chunk_after_close : bool;         (* some chunk reached the broker after the close request *)
  uc_sequential : bool                 (* driven by one goroutine (snapshots and rets comparable) *)
}.

Definition up_model (c : up_case) : ures := urun (uinit (uc_pol c) (uc_rev0 c)) (uc_ops c).

Definition up_corr (c : up_case) : bool :=
  if uc_sequential c then
    let r := up_model c in
    list_beq _ N.eqb (r_rets r) (uc_rets c)
    && list_beq _ snap_eqb (r_snaps r) (uc_snaps c)
    && list_beq _ chunk_eqb (chunks_of (r_outs r)) (uc_chunks c)
    && list_beq _ (fun a b => (fst a =? fst b) && list_beq _ group_eqb (snd a) (snd b))
                (sendhooks_of (r_outs r)) (uc_sendhooks c)
    && list_beq _ pairN_eqb (ackhooks_of (r_outs r)) (uc_ackhooks c)
    && list_beq _ pairN_eqb (closereq_of (r_outs r)) (uc_close c)
  else true.

(* --- C01 predicate on the observation (never consults the model of the code) --- *)

Fixpoint ids_of_ops (ops : list uop) : list N :=
  match ops with
  | Write k _ :: ops' => k :: ids_of_ops ops'
  | _ :: ops' => ids_of_ops ops'
  | [] => []
  end.
Fixpoint seqs_from (n : N) (cs : list (N * list wgroup * list N)) : bool :=
  match cs with
  | [] => true
  | c :: cs' => (fst (fst c) =? n) && seqs_from (n + 1) cs'
  end.
Definition results_of_ops (ops : list uop) : list (N * N) :=
  concat (map (fun o => match o with Results rs => rs | _ => [] end) ops).
Definition closed_ok (ops : list uop) (rets : list N) : bool :=
  existsb (fun or => match fst or with Close => snd or =? 0 | _ => false end) (combine ops rets).
(* alias table handed out by the broker: open response + every Alias op (first alias per id wins
   on the client, and broker_wf says the broker never hands out two) *)
Definition handed_out (c : up_case) : list (N * N) :=
  uc_rev0 c ++ concat (map (fun o => match o with Alias m => map (fun ai => (snd ai, fst ai)) m | _ => [] end) (uc_ops c)).
(* a group sent in alias form must use an alias the broker handed out for exactly that id *)
Definition group_alias_ok (tbl : list (N * N)) (g : wgroup) : bool :=
  if fst (snd (fst g)) then existsb (fun ia => (fst ia =? fst (fst g)) && (snd ia =? snd (snd (fst g)))) tbl
  else true.
Definition hook_matches_chunk (h : N * list (N * list pt)) (c : N * list wgroup * list N) : bool :=
  (fst h =? fst (fst c))
  && list_beq _ group_eqb (snd h) (map (fun g : wgroup => (fst (fst g), snd g)) (snd (fst c))).

Definition c01_ok (c : up_case) : bool :=
  let ids := ids_of_ops (uc_ops c) in
  let n := N.of_nat (length (uc_chunks c)) in
  let total := fold_right (fun ch a => chunk_count ch + a) 0 (uc_chunks c) in
  if closed_ok (uc_ops c) (uc_rets c) then
    (* numbering 1..N *)
    seqs_from 1 (uc_chunks c)
    (* conservation per data id, and nothing for ids never written *)
    && forallb (fun id => pts_eqb (chunks_pts id (uc_chunks c)) (accepted_pts id (uc_ops c) (uc_rets c))) ids
    && forallb (fun ch => forallb (fun g : wgroup => existsb (N.eqb (fst (fst g))) ids) (snd (fst ch))) (uc_chunks c)
    && forallb (fun ch => forallb (group_alias_ok (handed_out c)) (snd (fst ch))) (uc_chunks c)
    (* close request: exact totals, exactly one, nothing after it *)
    && list_beq _ pairN_eqb (uc_close c) [(total, n)]
    && negb (uc_chunk_after_close c)
    (* hooks *)
    && list_beq _ pairN_eqb (uc_ackhooks c) (results_of_ops (uc_ops c))
    && (N.of_nat (length (uc_sendhooks c)) =? n)
    && forallb (fun hc => hook_matches_chunk (fst hc) (snd hc)) (combine (uc_sendhooks c) (uc_chunks c))
  else true.

(* --- C20 predicate on the observation --- *)

(* walk the ops with their snapshots: [acc] = points accepted so far, [pend] = payload bytes
   accepted since the last cut, [pendn] = groups/points pending since the last cut, [pseq] =
   sequence number after the previous op *)
Fixpoint c20_walk (pol : policy) (ops : list uop) (rets : list N) (snaps : list snapshot)
         (acc pend : N) (pending : bool) (pseq : N) : bool :=
  match ops, rets, snaps with
  | o :: ops', r :: rets', sn :: snaps' =>
      let sq := fst (fst sn) in let tot := snd (fst sn) in let bufc := buf_count (snd sn) in
      let cut := negb (sq =? pseq) in
      let '(acc', pend', pending', ok) :=
        match o with
        | Write _ ps =>
            if r =? 0 then
              let acc1 := acc + N.of_nat (length ps) in
              let pend1 := pend + sum_len ps in
              let must := is_flush pol pend1 in
              (acc1, (if cut then 0 else pend1), negb cut,
               Bool.eqb cut must && (sq =? (if cut then pseq + 1 else pseq)))
            else (acc, pend, pending, negb cut)
        | Flush =>
            if r =? 0 then (acc, 0, false, (sq =? (if pending then pseq + 1 else pseq)) && (bufc =? 0) && (tot =? acc))
            else (acc, pend, pending, true)
        | Tick => (acc, (if cut then 0 else pend), (if cut then false else pending), sq =? (if pending then pseq + 1 else pseq))
        | Close => (acc, 0, false, (sq =? (if pending then pseq + 1 else pseq)))
        | Alias _ | Results _ => (acc, pend, pending, negb cut)
        end in
      ok && (tot + bufc <=? acc') && c20_walk pol ops' rets' snaps' acc' pend' pending' sq
  | [], _, _ => true
  | _, _, _ => false
  end.

Definition c20_ok (c : up_case) : bool :=
  if uc_sequential c then
    c20_walk (uc_pol c) (uc_ops c) (uc_rets c) (uc_snaps c) 0 0 false 0
    (* no chunk is ever cut empty *)
    && forallb (fun ch => negb (N.of_nat (length (snd (fst ch))) =? 0)) (uc_chunks c)
  else forallb (fun ch => negb (N.of_nat (length (snd (fst ch))) =? 0)) (uc_chunks c).

Definition up_judge (c : up_case) : N :=
  (if up_corr c then 0 else 1) + (if c01_ok c then 0 else 2) + (if c20_ok c then 0 else 4).

(* ------------------------------------------------------------------------------------------ *)
(* Real-time interval cases (h-upstream kind rt-interval).  The model above has no clock: a tick
   is an event.  These cases run the library's OWN tickers and its own, possibly shared, policy
   objects (no harness wrapper) and record wall-clock delays; nothing is predicted by the model
   ([rt_corr] = true), the predicate [rt_ok] is evaluated on the observation alone. *)
Record rt_case := mkRtCase {
  rt_interval_ms : N;         (* the interval of the policy of the stream under test *)
  rt_slack_ms : N;            (* scheduling slack granted on top of it *)
  rt_delays_ms : list N;      (* per small write: ms from its acceptance until the chunk carrying it reached the broker *)
  rt_delivered : bool;        (* every small write reached the broker in a chunk of its own stream (at the latest at Close) *)
  rt_accepted : list N;       (* per stream: points accepted by WriteDataPoints *)
  rt_arrived : list N;        (* per stream: points in the (distinct) chunks that reached the broker *)
  rt_closetot : list N        (* per stream: TotalDataPoints of its close request *)
}.

Definition rt_corr (c : rt_case) : bool := true.
(* conservation totals at Close (the C01 side of the observation) *)
Definition rt_totals_ok (c : rt_case) : bool :=
  list_beq _ N.eqb (rt_accepted c) (rt_arrived c) && list_beq _ N.eqb (rt_accepted c) (rt_closetot c).
(* an interval policy never holds accepted data longer than one interval (plus slack) *)
Definition rt_ok (c : rt_case) : bool :=
  forallb (fun d => d <=? rt_interval_ms c + rt_slack_ms c) (rt_delays_ms c)
  && rt_delivered c && rt_totals_ok c.


(* compact printing of long point lists by the harness: a run of [n] points with consecutive
   elapsed times from [first] and the same digest and length (big-backlog histories) *)
Fixpoint prun_aux (k : nat) (first dig len : N) : list pt :=
  match k with
  | O => []
  | S k' => (first, dig, len) :: prun_aux k' (first + 1) dig len
  end.
Definition prun (first n dig len : N) : list pt := prun_aux (N.to_nat n) first dig len.

(* ------------------------------------------------------------------------------------------ *)
(* Sent-storage failures.  Upstream.flush as it is: totalDataPoints is advanced, the sequence
   number consumed (toUpstreamChunk), the buffer cleared and HookBefore queued BEFORE
   u.sent.Store is called; when Store returns an error flush returns it and the chunk is never
   transmitted.  So a failing Store changes nothing in the state; it removes the chunk from the
   wire and makes an explicit Flush return the error (flushLoop ignores it on a size cut or a
   tick; Close logs it and still sends the close request).  [F] = the sequence numbers whose
   Store fails (the k-th cut calls Store with sequence number k). *)
Definition memN (x : N) (l : list N) : bool := existsb (N.eqb x) l.
Definition sf_outs (F : list N) (outs : list uout) : list uout :=
  filter (fun o => match o with OChunk s _ _ => negb (memN s F) | _ => true end) outs.
Definition sf_lost (F : list N) (outs : list uout) : bool :=
  existsb (fun o => match o with OChunk s _ _ => memN s F | _ => false end) outs.
Definition sf_ret (F : list N) (o : uop) (outs : list uout) (ret : N) : N :=
  match o with Flush => if sf_lost F outs then 1 else ret | _ => ret end.

Fixpoint urun_sf (F : list N) (s : ustate) (ops : list uop) : ures :=
  match ops with
  | [] => mkRes s [] [] []
  | o :: ops' =>
      let r := ustep s o in
      let s' := fst (fst r) in
      let rest := urun_sf F s' ops' in
      mkRes (r_state rest) (sf_outs F (snd (fst r)) ++ r_outs rest) (snap s' :: r_snaps rest)
            (sf_ret F o (snd (fst r)) (snd r) :: r_rets rest)
  end.

Definition sf_corr (F : list N) (c : up_case) : bool :=
  if uc_sequential c then
    let r := urun_sf F (uinit (uc_pol c) (uc_rev0 c)) (uc_ops c) in
    list_beq _ N.eqb (r_rets r) (uc_rets c)
    && list_beq _ snap_eqb (r_snaps r) (uc_snaps c)
    && list_beq _ chunk_eqb (chunks_of (r_outs r)) (uc_chunks c)
    && list_beq _ (fun a b => (fst a =? fst b) && list_beq _ group_eqb (snd a) (snd b))
                (sendhooks_of (r_outs r)) (uc_sendhooks c)
    && list_beq _ pairN_eqb (ackhooks_of (r_outs r)) (uc_ackhooks c)
    && list_beq _ pairN_eqb (closereq_of (r_outs r)) (uc_close c)
  else true.

(* C01 side under Store failures, on the observation only: the cuts are what the send hooks saw
   (one per cut, lost ones included); the broker has exactly the cuts whose Store succeeded *)
Fixpoint hookseqs_from (n : N) (hs : list (N * list (N * list pt))) : bool :=
  match hs with
  | [] => true
  | h :: hs' => (fst h =? n) && hookseqs_from (n + 1) hs'
  end.
Definition sf_c01_ok (F : list N) (c : up_case) : bool :=
  let ids := ids_of_ops (uc_ops c) in
  let hooks := uc_sendhooks c in
  let n := N.of_nat (length hooks) in
  let total := fold_right (fun h a => buf_count (snd h) + a) 0 hooks in
  if closed_ok (uc_ops c) (uc_rets c) then
    hookseqs_from 1 hooks
    && list_beq _ N.eqb (map (fun ch => fst (fst ch)) (uc_chunks c))
                (filter (fun s => negb (memN s F)) (map fst hooks))
    && forallb (fun ch => existsb (fun h => hook_matches_chunk h ch) hooks) (uc_chunks c)
    && forallb (fun id => pts_eqb (concat (map (fun h => buf_pts id (snd h)) hooks))
                                  (accepted_pts id (uc_ops c) (uc_rets c))) ids
    && forallb (fun h => forallb (fun g => existsb (N.eqb (fst g)) ids) (snd h)) hooks
    && forallb (fun ch => forallb (group_alias_ok (handed_out c)) (snd (fst ch))) (uc_chunks c)
    && list_beq _ pairN_eqb (uc_close c) [(total, n)]
    && negb (uc_chunk_after_close c)
    && list_beq _ pairN_eqb (uc_ackhooks c) (results_of_ops (uc_ops c))
  else true.

(* C20 walk under Store failures: as c20_walk, except that a Flush that returns an error may have
   cut (the Store of that cut failed): then the buffer is empty and one sequence number is used *)
Fixpoint c20_walk_sf (pol : policy) (ops : list uop) (rets : list N) (snaps : list snapshot)
         (acc pend : N) (pending : bool) (pseq : N) : bool :=
  match ops, rets, snaps with
  | o :: ops', r :: rets', sn :: snaps' =>
      let sq := fst (fst sn) in let tot := snd (fst sn) in let bufc := buf_count (snd sn) in
      let cut := negb (sq =? pseq) in
      let '(acc', pend', pending', ok) :=
        match o with
        | Write _ ps =>
            if r =? 0 then
              let acc1 := acc + N.of_nat (length ps) in
              let pend1 := pend + sum_len ps in
              let must := is_flush pol pend1 in
              (acc1, (if cut then 0 else pend1), negb cut,
               Bool.eqb cut must && (sq =? (if cut then pseq + 1 else pseq)))
            else (acc, pend, pending, negb cut)
        | Flush =>
            if r =? 0 then (acc, 0, false, (sq =? (if pending then pseq + 1 else pseq)) && (bufc =? 0) && (tot =? acc))
            else if cut then (acc, 0, false, pending && (sq =? pseq + 1) && (bufc =? 0) && (tot =? acc))
            else (acc, pend, pending, true)
        | Tick => (acc, (if cut then 0 else pend), (if cut then false else pending), sq =? (if pending then pseq + 1 else pseq))
        | Close => (acc, 0, false, (sq =? (if pending then pseq + 1 else pseq)))
        | Alias _ | Results _ => (acc, pend, pending, negb cut)
        end in
      ok && (tot + bufc <=? acc') && c20_walk_sf pol ops' rets' snaps' acc' pend' pending' sq
  | [], _, _ => true
  | _, _, _ => false
  end.
Definition sf_c20_ok (c : up_case) : bool :=
  (if uc_sequential c then c20_walk_sf (uc_pol c) (uc_ops c) (uc_rets c) (uc_snaps c) 0 0 false 0 else true)
  && forallb (fun ch => negb (N.of_nat (length (snd (fst ch))) =? 0)) (uc_chunks c).

Record sf_case := mkSfCase {
  sf_fail : list N;          (* input: the k-th Store call fails (once each) *)
  sf_failed_seqs : list N;   (* observed: sequence numbers passed to the failing calls, ascending *)
  sf_up : up_case
}.
(* a Store call beyond the last cut of the history never happens *)
Definition sf_judge (x : sf_case) : N :=
  let c := sf_up x in
  let last := u_seq (r_state (urun_sf (sf_fail x) (uinit (uc_pol c) (uc_rev0 c)) (uc_ops c))) in
  (if list_beq _ N.eqb (filter (fun k => k <=? last) (sf_fail x)) (sf_failed_seqs x) && sf_corr (sf_fail x) c then 0 else 1)
  + (if sf_c01_ok (sf_failed_seqs x) c then 0 else 2)
  + (if sf_c20_ok c then 0 else 4).

(* ------------------------------------------------------------------------------------------ *)
(* Concurrent flushers (h-upstream kind flushers): several goroutines, each with its OWN data id,
   loop {WriteDataPoints(own id); Flush(); observe}.  The harness judges every round and shows one
   goroutine's window in program order (the first anomaly if there is one).  Per op the
   observation is: the own-id points (from the window start) in chunks whose sequence number is at
   most State().LastIssuedSequenceNumber read right after the op returned (contents from the
   broker's ledger), and the own-id points in State().DataPointsBuffer of that same snapshot.
   [fl_ok] is the barrier on the observation alone: after a Flush that returned nil, every own-id
   point accepted before is in such a chunk and none is buffered.  [fl_corr]: the model run of that
   goroutine's sequence alone predicts the same own-id projections (other goroutines' events touch
   other data ids only). *)

Record fl_case := mkFlCase {
  fl_pol : policy;
  fl_workers : N;            (* goroutines, each with its own data id, each looping {Write own id; Flush; observe} *)
  fl_rounds : N;             (* rounds per goroutine *)
  fl_id : N;                 (* the data id of the goroutine whose window is shown (the first anomaly, else goroutine 1) *)
  fl_ops : list uop;         (* that goroutine's last rounds in program order: Write fl_id ps; Flush; ... *)
  fl_rets : list N;
  fl_obs : list (list pt * list pt);
  fl_final_ok : bool
}.
Fixpoint fl_walk (id : N) (ops : list uop) (rets : list N) (obs : list (list pt * list pt)) (acc : list pt) : bool :=
  match ops, rets, obs with
  | o :: ops', r :: rets', ob :: obs' =>
      let acc' := match o with Write k ps => if (k =? id) && (r =? 0) then acc ++ ps else acc | _ => acc end in
      (match o with Flush => if r =? 0 then pts_eqb (fst ob) acc' && pts_eqb (snd ob) [] else true | _ => true end)
      && fl_walk id ops' rets' obs' acc'
  | [], _, _ => true
  | _, _, _ => false
  end.
Definition fl_ok (c : fl_case) : bool := fl_walk (fl_id c) (fl_ops c) (fl_rets c) (fl_obs c) [].
Fixpoint fl_corr_walk (id : N) (s : ustate) (ops : list uop) (rets : list N) (obs : list (list pt * list pt))
         (sent : list pt) : bool :=
  match ops, rets, obs with
  | o :: ops', r :: rets', ob :: obs' =>
      let st := ustep s o in
      let s' := fst (fst st) in
      let sent' := sent ++ chunks_pts id (chunks_of (snd (fst st))) in
      (snd st =? r)
      && (match o with Flush => pts_eqb (fst ob) sent' && pts_eqb (snd ob) (buf_pts id (u_buf s')) | _ => true end)
      && fl_corr_walk id s' ops' rets' obs' sent'
  | [], _, _ => true
  | _, _, _ => false
  end.
Definition fl_corr (c : fl_case) : bool :=
  fl_corr_walk (fl_id c) (uinit (fl_pol c) []) (fl_ops c) (fl_rets c) (fl_obs c) [].
Definition fl_judge (c : fl_case) : N :=
  (if fl_corr c then 0 else 1) + (if fl_final_ok c then 0 else 2) + (if fl_ok c then 0 else 4).

(* what the harness emits: an event-history case, a real-time case, an event-history case with
   failing sent-storage Stores, or a concurrent-flushers case *)
Inductive upx_case := UC (c : up_case) | RT (c : rt_case) | SF (c : sf_case) | FL (c : fl_case).
Definition upx_judge (x : upx_case) : N :=
  match x with
  | UC c => up_judge c
  | RT c => (if rt_corr c then 0 else 1) + (if rt_totals_ok c then 0 else 2) + (if rt_ok c then 0 else 4)
  | SF c => sf_judge c
  | FL c => fl_judge c
  end.

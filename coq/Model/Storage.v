(* Model of iscp/storage.go: inmemSentStorage (payload-keeping; the connection's default since
   /repo f1380ca) and inmemSentStorageNoPayload (Store keeps only the elapsed time of every point;
   the default before that commit - finding F1).
   One storage per connection: stream id -> sequence number -> data point groups.
   Transliteration of Store / Remove / List / Clear as they are NOW: Clear deletes the one stream's
   entry under the write lock ([ClearRepaired], /repo 0f97a0d).  The FORMER Clear, which replaced
   the whole map of every stream (finding F3), is kept side by side as [ClearFormer] for the
   refutation lemma only; [clear_of_code] says which one the correspondence uses.
   Executable; no proofs here.
   Go maps are association lists (Lib/ListMap); what List returns is sorted by sequence number
   on both sides before it is compared (Go's iteration order is random). *)
From Coq Require Import List NArith Bool.
From Iscp Require Import Lib.ListMap Model.Upstream.
Import ListNotations.
Open Scope N_scope.

(* DataPointGroups as handed to Store: (data id, points) in slice order *)
Definition groups := list (N * list pt).

(* DataPoints.withoutPayload: a fresh point carrying only ElapsedTime (payload nil: digest 0, length 0) *)
Definition strip_pt (p : pt) : pt := (fst (fst p), 0, 0).
Definition strip_groups (g : groups) : groups := map (fun d => (fst d, map strip_pt (snd d))) g.

Definition sstate := lmap (lmap groups).

Inductive clear_variant := ClearFormer | ClearRepaired.

Inductive sop :=
| SStore (sid seq : N) (g : groups)
| SRemove (sid seq : N)
| SList (sid : N)
| SClear (sid : N).

Inductive sres :=
| RNil                              (* nil error, no value *)
| RGroups (g : groups)              (* Remove: the removed groups *)
| RNoStream                         (* "not found stream" *)
| RNoSeq                            (* "not found sequence number" *)
| RList (m : list (N * groups)).    (* List: copy of the stream's map, sorted by sequence number *)

(* insertion sort of an association list by key (canonical form of a Go map) *)
Fixpoint ins_sorted {V} (k : N) (v : V) (l : list (N * V)) : list (N * V) :=
  match l with
  | [] => [(k, v)]
  | (k', v') :: l' => if k <=? k' then (k, v) :: l else (k', v') :: ins_sorted k v l'
  end.
Definition sort_map {V} (l : list (N * V)) : list (N * V) :=
  fold_right (fun kv acc => ins_sorted (fst kv) (snd kv) acc) [] l.

Definition stream_of (sid : N) (st : sstate) : lmap groups :=
  match lookup sid st with Some m => m | None => [] end.

(* inmemSentStorage.Store (the NoPayload wrapper strips first) *)
Definition st_store (keep : bool) (sid seq : N) (g : groups) (st : sstate) : sstate :=
  let g' := if keep then g else strip_groups g in
  insert sid (insert seq g' (stream_of sid st)) st.

(* inmemSentStorage.Remove: the emptied inner map stays in place *)
Definition st_remove (sid seq : N) (st : sstate) : sstate * sres :=
  match lookup sid st with
  | None => (st, RNoStream)
  | Some m =>
      match lookup seq m with
      | None => (st, RNoSeq)
      | Some g => (insert sid (remove seq m) st, RGroups g)
      end
  end.

Definition st_list (sid : N) (st : sstate) : sres :=
  match lookup sid st with
  | None => RNoStream
  | Some m => RList (sort_map m)
  end.

(* inmemSentStorage.Clear: delete(s.buf, streamID) under Lock  [ClearRepaired = the code now].
   Formerly: s.buf = make(map[uuid.UUID]map[uint32]DataPointGroups) - the stream id was not looked
   at (and the write happened under RLock)  [ClearFormer]. *)
Definition st_clear (v : clear_variant) (sid : N) (st : sstate) : sstate :=
  match v with
  | ClearFormer => []
  | ClearRepaired => remove sid st
  end.

Definition sstep (v : clear_variant) (keep : bool) (st : sstate) (o : sop) : sstate * sres :=
  match o with
  | SStore sid seq g => (st_store keep sid seq g st, RNil)
  | SRemove sid seq => st_remove sid seq st
  | SList sid => (st, st_list sid st)
  | SClear sid => (st_clear v sid st, RNil)
  end.

Fixpoint srun (v : clear_variant) (keep : bool) (st : sstate) (ops : list sop) : sstate * list sres :=
  match ops with
  | [] => (st, [])
  | o :: ops' =>
      let r := sstep v keep st o in
      let r' := srun v keep (fst r) ops' in
      (fst r', snd r :: snd r')
  end.

(* the stream an operation is addressed to *)
Definition sop_stream (o : sop) : N :=
  match o with SStore s _ _ | SRemove s _ | SList s | SClear s => s end.

(* ------------------------------------------------------------------------------------------ *)
(* correspondence case *)

Definition group_list_eqb (a b : groups) : bool := list_beq _ group_eqb a b.
Definition entry_eqb (a b : N * groups) : bool := (fst a =? fst b) && group_list_eqb (snd a) (snd b).
Definition sres_eqb (a b : sres) : bool :=
  match a, b with
  | RNil, RNil | RNoStream, RNoStream | RNoSeq, RNoSeq => true
  | RGroups x, RGroups y => group_list_eqb x y
  | RList x, RList y => list_beq _ entry_eqb x y
  | _, _ => false
  end.

(* snapshots: after every operation the harness calls List for every stream id of the case's
   universe [sc_ids]; model side: *)
Definition snap_all (ids : list N) (st : sstate) : list sres := map (fun i => st_list i st) ids.

Fixpoint srun_snaps (v : clear_variant) (keep : bool) (ids : list N) (st : sstate) (ops : list sop)
  : list (list sres) :=
  match ops with
  | [] => []
  | o :: ops' => let st' := fst (sstep v keep st o) in snap_all ids st' :: srun_snaps v keep ids st' ops'
  end.

Record st_case := mkStCase {
  sc_keep : bool;                    (* true: newInmemSentStorage (default), false: newInmemSentStorageNoPayload *)
  sc_ids : list N;                   (* universe of stream ids *)
  sc_ops : list sop;
  (* observations on the real storage *)
  sc_res : list sres;                (* result of every op *)
  sc_snaps : list (list sres)        (* List of every stream of the universe after every op *)
}.

(* which Clear the code has (F3 fixed in /repo 0f97a0d) *)
Definition clear_of_code : clear_variant := ClearRepaired.

Definition st_corr (c : st_case) : bool :=
  list_beq _ sres_eqb (snd (srun clear_of_code (sc_keep c) [] (sc_ops c))) (sc_res c)
  && list_beq _ (list_beq _ sres_eqb) (srun_snaps clear_of_code (sc_keep c) (sc_ids c) [] (sc_ops c)) (sc_snaps c).

(* C07 (storage part) on the observation alone: an operation addressed to stream a leaves what
   List returns for every other stream b of the universe unchanged. *)
Fixpoint unchanged_others (ids : list N) (a : N) (before after : list sres) : bool :=
  match ids, before, after with
  | i :: ids', x :: before', y :: after' =>
      ((i =? a) || sres_eqb x y) && unchanged_others ids' a before' after'
  | [], [], [] => true
  | _, _, _ => false
  end.

Fixpoint c07_walk (ids : list N) (ops : list sop) (prev : list sres) (snaps : list (list sres)) : bool :=
  match ops, snaps with
  | o :: ops', sn :: snaps' => unchanged_others ids (sop_stream o) prev sn && c07_walk ids ops' sn snaps'
  | [], [] => true
  | _, _ => false
  end.

Definition c07_storage_ok (c : st_case) : bool :=
  c07_walk (sc_ids c) (sc_ops c) (map (fun _ => RNoStream) (sc_ids c)) (sc_snaps c).

Definition st_judge (c : st_case) : N :=
  (if st_corr c then 0 else 1) + (if c07_storage_ok c then 0 else 2).

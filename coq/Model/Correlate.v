(* Model of request/response correlation.
   C06: wire/client_conn.go sendRequest + readRequestLoop + the typed Send*Request wrappers,
        wire/req_id_generator.go.
   C16: iscp/e2e.go (SendCall, SendReplyCall, SendCallAndWaitReplayCall, call, subscribeReply,
        receiveReplyCall, ReceiveCall, ReceiveReplyCall) and the dispatch loops
        readUpstreamCallAckLoop / readDownstreamCallLoop of iscp/conn.go.
   Executable; no proofs here.

   The shared piece is the [table]: a Go `map[key]chan T` whose channels have capacity 1.  A waiter
   (one invocation of sendRequest / call / subscribeReply) owns one fresh channel; the table maps a
   key to the waiter whose channel is registered under it ([t_pend]) and records what sits in each
   waiter's channel ([t_slot]).  C06 uses one table keyed by request id; C16 uses two (ack table
   keyed by call id, reply table keyed by request-call id) plus two bounded inboxes.

   Every scheduling choice is an event: the moment a waiter's `select` takes the reply branch is
   [Wake], the moment it takes the ctx.Done branch is [Cancel]; so a response that is already in
   the channel when the context ends can go either way, as in Go. *)
From Coq Require Import List NArith Bool.
From Iscp Require Import Lib.ListMap.
Import ListNotations.
Open Scope N_scope.

(* ------------------------------------------------------------------------------------------ *)
(* the correlation table *)

Section Table.
  Variable P : Type.

  Record table := mkT {
    t_pend : lmap N;      (* key -> waiter whose channel is registered under the key *)
    t_slot : lmap P       (* waiter -> the value buffered in its channel (capacity 1) *)
  }.

  Definition t_empty : table := mkT [] [].

  (* m[key] = ch : overwrites an existing entry, as a Go map assignment does *)
  Definition t_register (k w : N) (t : table) : table := mkT (insert k w (t_pend t)) (t_slot t).

  Inductive routed := RIgnored | RDelivered (w : N) | RBlocked (w : N).

  (* ch, ok := m[key]; if !ok { continue }; delete(m, key); ch <- v
     A full channel would block the dispatcher for ever: reported as RBlocked, table unchanged. *)
  Definition t_route (k : N) (p : P) (t : table) : table * routed :=
    match lookup k (t_pend t) with
    | None => (t, RIgnored)
    | Some w =>
        match lookup w (t_slot t) with
        | Some _ => (t, RBlocked w)
        | None => (mkT (remove k (t_pend t)) (insert w p (t_slot t)), RDelivered w)
        end
    end.

  (* v := <-ch  when the channel holds a value *)
  Definition t_take (w : N) (t : table) : table * option P :=
    match lookup w (t_slot t) with
    | Some p => (mkT (t_pend t) (remove w (t_slot t)), Some p)
    | None => (t, None)
    end.
End Table.
Arguments t_pend {P}. Arguments t_slot {P}. Arguments mkT {P}.
Arguments t_empty {P}. Arguments t_register {P}. Arguments t_route {P}. Arguments t_take {P}.

Definition two32 : N := 4294967296.
Definition two31 : N := 2147483648.

(* ========================================================================================== *)
(* C06 - wire.ClientConn *)

(* a response on the wire: (message type tag, marker).  The tag of the response type that answers
   a request of kind k is k itself. *)
Notation payload := (N * N)%type (only parsing).

(* request kinds: 0 ConnectRequest (written by waitForConnected, never registered in replyCh),
   1 Ping, 2 UpstreamOpen, 3 UpstreamResume, 4 UpstreamClose, 5 DownstreamOpen, 6 DownstreamResume,
   7 DownstreamClose, 8 UpstreamMetadata *)
Inductive wstatus :=
| WWaiting                (* inside sendRequest's select *)
| WGot (ty m : N)         (* returned the typed response *)
| WCancelled              (* returned ctx.Err() *)
| WPanicked               (* the caller's goroutine panicked (never produced by the code as it is now:
                             c06_never_panics; the former unchecked type assertion did, F15) *)
| WMalformed              (* returned a malformed-message error: the response bearing its id has the
                             wrong message type *)
| WUnrouted.              (* ConnectRequest: answer read directly from the transport *)

Definition wstatus_eqb (a b : wstatus) : bool :=
  match a, b with
  | WWaiting, WWaiting | WCancelled, WCancelled | WPanicked, WPanicked | WUnrouted, WUnrouted
  | WMalformed, WMalformed => true
  | WGot t m, WGot t' m' => (t =? t') && (m =? m')
  | _, _ => false
  end.

(* what a caller's typed wrapper does with a response of the wrong type: typedResponse[T] returns a
   malformed-message error (F15 repaired; the former code's unchecked `res.(T)` panicked, which
   was this definition set to WPanicked). *)
Definition wrong_type_outcome : wstatus := WMalformed.

Record wstate := mkW {
  w_cur : N;                        (* IDGenerator.currentValue *)
  w_n : N;                          (* number of requests issued so far = index of the next caller *)
  w_tab : table payload;            (* replyCh + the reply channels *)
  w_st : lmap (N * wstatus);        (* caller -> (kind, status) *)
  w_ids : list N;                   (* request ids put on the wire, in issue order *)
  w_stuck : bool                    (* readRequestLoop blocked on `replyCh <- msg` *)
}.

Inductive wev :=
| Issue (kind : N)                  (* a caller runs idGenerator.Next(), registers, writes the request *)
| Respond (id ty m : N)             (* readRequestLoop handles a message bearing [id] (pending or not:
                                       a spurious/duplicate response is a Respond whose id is not pending) *)
| Wake (c : N)                      (* caller c's select takes `case reply := <-reply` *)
| Cancel (c : N).                   (* caller c's select takes `case <-ctx.Done()` *)

Definition winit : wstate := mkW 0 0 t_empty [] [] false.

Definition set_status (c kind : N) (st : wstatus) (m : lmap (N * wstatus)) := insert c (kind, st) m.

Definition wstep (s : wstate) (e : wev) : wstate :=
  match e with
  | Issue kind =>
      let id := w_cur s in                         (* atomic.AddUint32(&cur, 2) - 2 *)
      let cur' := (w_cur s + 2) mod two32 in
      let c := w_n s in
      if kind =? 0
      then mkW cur' (c + 1) (w_tab s) (set_status c kind WUnrouted (w_st s)) (w_ids s ++ [id]) (w_stuck s)
      else mkW cur' (c + 1) (t_register id c (w_tab s)) (set_status c kind WWaiting (w_st s))
               (w_ids s ++ [id]) (w_stuck s)
  | Respond id ty m =>
      match t_route id (ty, m) (w_tab s) with
      | (t', RBlocked _) => mkW (w_cur s) (w_n s) t' (w_st s) (w_ids s) true
      | (t', _) => mkW (w_cur s) (w_n s) t' (w_st s) (w_ids s) (w_stuck s)
      end
  | Wake c =>
      match lookup c (w_st s) with
      | Some (kind, WWaiting) =>
          match t_take c (w_tab s) with
          | (t', Some (ty, m)) =>
              mkW (w_cur s) (w_n s) t'
                  (set_status c kind (if ty =? kind then WGot ty m else wrong_type_outcome) (w_st s))
                  (w_ids s) (w_stuck s)
          | (_, None) => s
          end
      | _ => s
      end
  | Cancel c =>
      match lookup c (w_st s) with
      | Some (kind, WWaiting) =>
          mkW (w_cur s) (w_n s) (w_tab s) (set_status c kind WCancelled (w_st s)) (w_ids s) (w_stuck s)
      | _ => s
      end
  end.

Definition wrun (s : wstate) (evs : list wev) : wstate := fold_left wstep evs s.

Definition wstatus_of (s : wstate) (c : N) : option wstatus :=
  match lookup c (w_st s) with Some (_, st) => Some st | None => None end.

(* --- the specification: one caller alone.  It sees only the responses that bear its own id and
       its own Wake/Cancel events; nothing another caller does occurs in it. --- *)
Record wsolo := mkS { s_pend : bool; s_slot : option payload; s_st : wstatus }.

Definition wsolo_init : wsolo := mkS true None WWaiting.

Definition wsolo_step (id c kind : N) (s : wsolo) (e : wev) : wsolo :=
  match e with
  | Issue _ => s
  | Respond id' ty m =>
      if (id' =? id) && s_pend s
      then match s_slot s with
           | None => mkS false (Some (ty, m)) (s_st s)
           | Some _ => s
           end
      else s
  | Wake c' =>
      if c' =? c
      then match s_st s, s_slot s with
           | WWaiting, Some (ty, m) => mkS (s_pend s) None (if ty =? kind then WGot ty m else wrong_type_outcome)
           | _, _ => s
           end
      else s
  | Cancel c' =>
      if c' =? c
      then match s_st s with
           | WWaiting => mkS (s_pend s) (s_slot s) WCancelled
           | _ => s
           end
      else s
  end.

Definition wsolo_run (id c kind : N) (s : wsolo) (evs : list wev) : wsolo :=
  fold_left (wsolo_step id c kind) evs s.

(* the events after the (c+1)-th Issue, and the kind of that Issue *)
Fixpoint after_issue (c : nat) (evs : list wev) : option (N * list wev) :=
  match evs with
  | [] => None
  | Issue k :: evs' => match c with O => Some (k, evs') | S c' => after_issue c' evs' end
  | _ :: evs' => after_issue c evs'
  end.

Fixpoint count_issues (evs : list wev) : nat :=
  match evs with
  | [] => O
  | Issue _ :: evs' => S (count_issues evs')
  | _ :: evs' => count_issues evs'
  end.

(* what the specification says caller c (whose request carried [id]) has returned after [evs] *)
Definition wspec (id : N) (c : nat) (evs : list wev) : option wstatus :=
  match after_issue c evs with
  | None => None
  | Some (kind, rest) =>
      if kind =? 0 then Some WUnrouted
      else Some (s_st (wsolo_run id (N.of_nat c) kind wsolo_init rest))
  end.

(* the history without the cancellations of caller c *)
Definition drop_cancel (c : N) (evs : list wev) : list wev :=
  filter (fun e => match e with Cancel c' => negb (c' =? c) | _ => true end) evs.

Fixpoint kinds_of (evs : list wev) : list N :=
  match evs with
  | [] => []
  | Issue k :: evs' => k :: kinds_of evs'
  | _ :: evs' => kinds_of evs'
  end.

(* --- correspondence case --- *)
Record wire_case := mkWireCase {
  wc_evs : list wev;                 (* the history, as linearised by the harness *)
  wc_ids : list N;                   (* observed: request id carried by the request of each Issue, in order *)
  wc_out : list (option wstatus)     (* observed: what each caller returned (None = not observable:
                                        ConnectRequest and the library's own keepalive pings) *)
}.

Fixpoint out_match (f : nat -> option wstatus) (c : nat) (obs : list (option wstatus)) : bool :=
  match obs with
  | [] => true
  | None :: obs' => out_match f (S c) obs'
  | Some st :: obs' =>
      match f c with
      | Some st' => wstatus_eqb st st' && out_match f (S c) obs'
      | None => false
      end
  end.

Definition wire_model (c : wire_case) : wstate := wrun winit (wc_evs c).

Definition wire_corr (c : wire_case) : bool :=
  let s := wire_model c in
  list_beq _ N.eqb (w_ids s) (wc_ids c)
  && (Nat.eqb (length (wc_out c)) (length (wc_ids c)))
  && out_match (fun i => wstatus_of s (N.of_nat i)) 0 (wc_out c)
  && negb (w_stuck s).

(* --- C06 predicate on the observation (never consults wstep) --- *)
Fixpoint nodupb (l : list N) : bool :=
  match l with
  | [] => true
  | x :: l' => negb (existsb (N.eqb x) l') && nodupb l'
  end.

Definition no_panic (obs : list (option wstatus)) : bool :=
  forallb (fun o => match o with Some WPanicked => false | _ => true end) obs.

Definition c06_ok (c : wire_case) : bool :=
  (* ids: even and pairwise distinct *)
  forallb N.even (wc_ids c) && nodupb (wc_ids c)
  (* every observable caller returned exactly what the one-caller specification says, computed
     from the id its own request carried *)
  && out_match (fun i => wspec (nth i (wc_ids c) 1) i (wc_evs c)) 0 (wc_out c)
  (* and nobody crashed *)
  && no_panic (wc_out c).

Definition wire_judge (c : wire_case) : N :=
  (if wire_corr c then 0 else 1) + (if c06_ok c then 0 else 2).

(* ========================================================================================== *)
(* C16 - end-to-end calls on iscp.Conn *)

(* a DownstreamCall: (call id, request call id, marker); request call id 0 stands for "" *)
Notation dcall := (N * N * N)%type (only parsing).
Definition d_req (d : dcall) : N := snd (fst d).
Definition dcall_eqb (a b : dcall) : bool :=
  (fst (fst a) =? fst (fst b)) && (snd (fst a) =? snd (fst b)) && (snd a =? snd b).

(* an UpstreamCallAck without its call id: (result code, marker); code 0 stands for Succeeded *)
Notation ack := (N * N)%type (only parsing).

Inductive ekind :=
| KCall                   (* SendCall *)
| KReply (req : N)        (* SendReplyCall with RequestCallID req *)
| KCallWait.              (* SendCallAndWaitReplayCall *)

Inductive eresult :=
| RAcked                  (* SendCall / SendReplyCall returned (callID, nil) *)
| RFailed (code m : N)    (* negative ack surfaced as an error carrying code/string *)
| RGotReply (d : dcall)   (* SendCallAndWaitReplayCall returned this reply *)
| RCancelled              (* ctx.Err() *)
| RClosed                 (* ErrConnectionClosed *)
| RExists.                (* "already exist call id" / "already exist reply for call id" *)

Inductive estatus := EWaitAck | EWaitReply | EDone (r : eresult).

Definition eresult_eqb (a b : eresult) : bool :=
  match a, b with
  | RAcked, RAcked | RCancelled, RCancelled | RClosed, RClosed | RExists, RExists => true
  | RFailed c m, RFailed c' m' => (c =? c') && (m =? m')
  | RGotReply d, RGotReply d' => dcall_eqb d d'
  | _, _ => false
  end.
Definition estatus_eqb (a b : estatus) : bool :=
  match a, b with
  | EWaitAck, EWaitAck | EWaitReply, EWaitReply => true
  | EDone r, EDone r' => eresult_eqb r r'
  | _, _ => false
  end.

(* which of its two waits a caller that has not returned is in cannot be seen from outside: the
   harness reports EWaitAck for every caller still blocked *)
Definition estatus_sim (obs model : estatus) : bool :=
  match obs, model with
  | EWaitAck, EWaitReply => true
  | _, _ => estatus_eqb obs model
  end.

Definition inbox_cap : N := 1024.

Record estate := mkE {
  e_n : N;                              (* index of the next caller *)
  e_ack : table ack;                    (* upstreamCallAckCh *)
  e_rep : table dcall;                  (* replyCallChs *)
  e_st : lmap (ekind * N * estatus);    (* caller -> (kind, call id, status) *)
  e_sent : list (N * N);                (* UpstreamCall messages written: (call id, request call id) *)
  e_calls : list dcall;                 (* downstreamCallCh (capacity 1024) *)
  e_replies : list dcall;               (* replyCallCh (capacity 1024) *)
  e_rcalls : list dcall;                (* what ReceiveCall has returned so far, in order *)
  e_rreplies : list dcall;              (* what ReceiveReplyCall has returned so far, in order *)
  e_closed : bool;                      (* connStatusClosed *)
  e_stuck : bool                        (* a dispatch loop blocked on a full 1-buffered channel *)
}.

Inductive eev :=
| ECall (k : ekind) (id : N)        (* a caller enters the API; [id] is what randomString() returned *)
| EAck (id code m : N)              (* readUpstreamCallAckLoop handles an UpstreamCallAck *)
| EIn (d : dcall)                   (* readDownstreamCallLoop handles a DownstreamCall *)
| EWake (c : N)                     (* caller c's select takes the channel branch *)
| ECancel (c : N)                   (* caller c's select takes ctx.Done() *)
| EClose                            (* the connection becomes closed *)
| ESeeClosed (c : N)                (* caller c's select takes the close-status ctx.Done() *)
| ERecvCall                         (* a ReceiveCall takes one call from the inbox *)
| ERecvReply.                       (* a ReceiveReplyCall takes one reply from the inbox *)

Definition einit : estate := mkE 0 t_empty t_empty [] [] [] [] [] [] false false.

Definition e_with_st (s : estate) (st : lmap (ekind * N * estatus)) : estate :=
  mkE (e_n s) (e_ack s) (e_rep s) st (e_sent s) (e_calls s) (e_replies s) (e_rcalls s) (e_rreplies s)
      (e_closed s) (e_stuck s).

Definition has_key {V} (k : N) (m : lmap V) : bool :=
  match lookup k m with Some _ => true | None => false end.

Definition push_inbox (d : dcall) (q : list dcall) : list dcall :=
  if N.of_nat (length q) <? inbox_cap then q ++ [d] else q.     (* select { case ch <- d: default: } *)

Definition req_of (k : ekind) : N := match k with KReply r => r | _ => 0 end.

(* call(): duplicate check, register the ack channel, write the UpstreamCall *)
Definition e_call (s : estate) (c : N) (k : ekind) (id : N) (rep : table dcall) : estate :=
  if has_key id (t_pend (e_ack s))
  then mkE (c + 1) (e_ack s) rep (insert c (k, id, EDone RExists) (e_st s)) (e_sent s) (e_calls s)
           (e_replies s) (e_rcalls s) (e_rreplies s) (e_closed s) (e_stuck s)
  else mkE (c + 1) (t_register id c (e_ack s)) rep (insert c (k, id, EWaitAck) (e_st s))
           (e_sent s ++ [(id, req_of k)]) (e_calls s) (e_replies s) (e_rcalls s) (e_rreplies s)
           (e_closed s) (e_stuck s).

Definition estep (s : estate) (e : eev) : estate :=
  match e with
  | ECall k id =>
      let c := e_n s in
      if e_closed s
      then (* SendCall/SendReplyCall: isClosed() -> ErrConnectionClosed.  SendCallAndWaitReplayCall has
              no such check: it registers both channels, then send() -> WaitUntilOrClosed(Connected)
              sees the closed status and returns ErrConnectionClosed (since the fix of F5 the hook is
              evaluated on the current status).  Nothing is written. *)
        match k with
        | KCallWait =>
            if has_key id (t_pend (e_rep s))
            then mkE (c + 1) (e_ack s) (e_rep s) (insert c (k, id, EDone RExists) (e_st s)) (e_sent s)
                     (e_calls s) (e_replies s) (e_rcalls s) (e_rreplies s) (e_closed s) (e_stuck s)
            else if has_key id (t_pend (e_ack s))
            then mkE (c + 1) (e_ack s) (t_register id c (e_rep s)) (insert c (k, id, EDone RExists) (e_st s))
                     (e_sent s) (e_calls s) (e_replies s) (e_rcalls s) (e_rreplies s) (e_closed s) (e_stuck s)
            else mkE (c + 1) (t_register id c (e_ack s)) (t_register id c (e_rep s))
                     (insert c (k, id, EDone RClosed) (e_st s))
                     (e_sent s) (e_calls s) (e_replies s) (e_rcalls s) (e_rreplies s) (e_closed s) (e_stuck s)
        | _ => mkE (c + 1) (e_ack s) (e_rep s) (insert c (k, id, EDone RClosed) (e_st s)) (e_sent s)
                   (e_calls s) (e_replies s) (e_rcalls s) (e_rreplies s) (e_closed s) (e_stuck s)
        end
      else
        match k with
        | KCallWait =>
            (* subscribeReply first *)
            if has_key id (t_pend (e_rep s))
            then mkE (c + 1) (e_ack s) (e_rep s) (insert c (k, id, EDone RExists) (e_st s)) (e_sent s)
                     (e_calls s) (e_replies s) (e_rcalls s) (e_rreplies s) (e_closed s) (e_stuck s)
            else e_call s c k id (t_register id c (e_rep s))
        | _ => e_call s c k id (e_rep s)
        end
  | EAck id code m =>
      match t_route id (code, m) (e_ack s) with
      | (t', r) =>
          mkE (e_n s) t' (e_rep s) (e_st s) (e_sent s) (e_calls s) (e_replies s) (e_rcalls s) (e_rreplies s)
              (e_closed s) (match r with RBlocked _ => true | _ => e_stuck s end)
      end
  | EIn d =>
      if d_req d =? 0
      then mkE (e_n s) (e_ack s) (e_rep s) (e_st s) (e_sent s) (push_inbox d (e_calls s)) (e_replies s)
               (e_rcalls s) (e_rreplies s) (e_closed s) (e_stuck s)
      else
        match t_route (d_req d) d (e_rep s) with
        | (t', r) =>
            mkE (e_n s) (e_ack s) t' (e_st s) (e_sent s) (e_calls s) (push_inbox d (e_replies s))
                (e_rcalls s) (e_rreplies s) (e_closed s) (match r with RBlocked _ => true | _ => e_stuck s end)
        end
  | EWake c =>
      match lookup c (e_st s) with
      | Some (k, id, EWaitAck) =>
          match t_take c (e_ack s) with
          | (t', Some (code, m)) =>
              let st' := match k with
                         | KCallWait => if code =? 0 then EWaitReply else EDone (RFailed 0 m)   (* errors.New(ack.ResultString): the code is dropped *)
                         | _ => if code =? 0 then EDone RAcked else EDone (RFailed code m)
                         end in
              mkE (e_n s) t' (e_rep s) (insert c (k, id, st') (e_st s)) (e_sent s) (e_calls s) (e_replies s)
                  (e_rcalls s) (e_rreplies s) (e_closed s) (e_stuck s)
          | (_, None) => s
          end
      | Some (k, id, EWaitReply) =>
          match t_take c (e_rep s) with
          | (t', Some d) =>
              mkE (e_n s) (e_ack s) t' (insert c (k, id, EDone (RGotReply d)) (e_st s)) (e_sent s) (e_calls s)
                  (e_replies s) (e_rcalls s) (e_rreplies s) (e_closed s) (e_stuck s)
          | (_, None) => s
          end
      | _ => s
      end
  | ECancel c =>
      match lookup c (e_st s) with
      | Some (k, id, EWaitAck) | Some (k, id, EWaitReply) =>
          (* case <-ctx.Done(): if c.state.Is(connStatusClosed) { ErrConnectionClosed } else ctx.Err() *)
          e_with_st s (insert c (k, id, EDone (if e_closed s then RClosed else RCancelled)) (e_st s))
      | _ => s
      end
  | EClose =>
      mkE (e_n s) (e_ack s) (e_rep s) (e_st s) (e_sent s) (e_calls s) (e_replies s) (e_rcalls s) (e_rreplies s)
          true (e_stuck s)
  | ESeeClosed c =>
      if e_closed s then
        match lookup c (e_st s) with
        | Some (k, id, EWaitAck) | Some (k, id, EWaitReply) =>
            e_with_st s (insert c (k, id, EDone RClosed) (e_st s))
        | _ => s
        end
      else s
  | ERecvCall =>
      match e_calls s with
      | d :: q => mkE (e_n s) (e_ack s) (e_rep s) (e_st s) (e_sent s) q (e_replies s) (e_rcalls s ++ [d])
                      (e_rreplies s) (e_closed s) (e_stuck s)
      | [] => s
      end
  | ERecvReply =>
      match e_replies s with
      | d :: q => mkE (e_n s) (e_ack s) (e_rep s) (e_st s) (e_sent s) (e_calls s) q (e_rcalls s)
                      (e_rreplies s ++ [d]) (e_closed s) (e_stuck s)
      | [] => s
      end
  end.

Definition erun (s : estate) (evs : list eev) : estate := fold_left estep evs s.

Definition estatus_of (s : estate) (c : N) : option estatus :=
  match lookup c (e_st s) with Some (_, _, st) => Some st | None => None end.

(* --- the specification: one caller alone; it sees the acks bearing its own call id, the incoming
       replies whose request-call id is its own call id, its own Wake/Cancel/SeeClosed, and Close --- *)
Record esolo := mkES {
  es_apend : bool; es_aslot : option ack;
  es_rpend : bool; es_rslot : option dcall;
  es_closed : bool; es_st : estatus
}.

Definition esolo_step (id c : N) (k : ekind) (s : esolo) (e : eev) : esolo :=
  match e with
  | ECall _ _ => s
  | EAck id' code m =>
      if (id' =? id) && es_apend s
      then match es_aslot s with
           | None => mkES false (Some (code, m)) (es_rpend s) (es_rslot s) (es_closed s) (es_st s)
           | Some _ => s
           end
      else s
  | EIn d =>
      if negb (d_req d =? 0) && (d_req d =? id) && es_rpend s
      then match es_rslot s with
           | None => mkES (es_apend s) (es_aslot s) false (Some d) (es_closed s) (es_st s)
           | Some _ => s
           end
      else s
  | EWake c' =>
      if c' =? c then
        match es_st s with
        | EWaitAck =>
            match es_aslot s with
            | Some (code, m) =>
                mkES (es_apend s) None (es_rpend s) (es_rslot s) (es_closed s)
                     (match k with
                      | KCallWait => if code =? 0 then EWaitReply else EDone (RFailed 0 m)   (* errors.New(ack.ResultString): the code is dropped *)
                      | _ => if code =? 0 then EDone RAcked else EDone (RFailed code m)
                      end)
            | None => s
            end
        | EWaitReply =>
            match es_rslot s with
            | Some d => mkES (es_apend s) (es_aslot s) (es_rpend s) None (es_closed s) (EDone (RGotReply d))
            | None => s
            end
        | EDone _ => s
        end
      else s
  | ECancel c' =>
      if c' =? c then
        match es_st s with
        | EDone _ => s
        | _ => mkES (es_apend s) (es_aslot s) (es_rpend s) (es_rslot s) (es_closed s)
                    (EDone (if es_closed s then RClosed else RCancelled))
        end
      else s
  | EClose => mkES (es_apend s) (es_aslot s) (es_rpend s) (es_rslot s) true (es_st s)
  | ESeeClosed c' =>
      if (c' =? c) && es_closed s then
        match es_st s with
        | EDone _ => s
        | _ => mkES (es_apend s) (es_aslot s) (es_rpend s) (es_rslot s) (es_closed s) (EDone RClosed)
        end
      else s
  | ERecvCall | ERecvReply => s
  end.

Definition esolo_run (id c : N) (k : ekind) (s : esolo) (evs : list eev) : esolo :=
  fold_left (esolo_step id c k) evs s.

(* the state a caller that starts on an open connection with a fresh id is in *)
Definition esolo_init (k : ekind) : esolo :=
  mkES true None (match k with KCallWait => true | _ => false end) None false EWaitAck.

Fixpoint e_after_call (c : nat) (closed : bool) (evs : list eev) : option (ekind * N * bool * list eev) :=
  match evs with
  | [] => None
  | ECall k id :: evs' => match c with O => Some (k, id, closed, evs') | S c' => e_after_call c' closed evs' end
  | EClose :: evs' => e_after_call c true evs'
  | _ :: evs' => e_after_call c closed evs'
  end.

(* what the specification says about the status [st] of caller c (ids assumed fresh:
   c16_fresh_ids).  A caller that starts on a closed connection must fail (any error). *)
Definition is_error (st : estatus) : bool :=
  match st with EDone RClosed | EDone RCancelled => true | _ => false end.

Definition espec (c : nat) (evs : list eev) : option estatus :=
  match e_after_call c false evs with
  | None => None
  | Some (k, id, closed, rest) =>
      if closed then None
      else Some (es_st (esolo_run id (N.of_nat c) k (esolo_init k) rest))
  end.

Definition espec_ok (c : nat) (evs : list eev) (st : estatus) : bool :=
  match e_after_call c false evs with
  | None => false
  | Some (k, id, closed, rest) =>
      if closed then is_error st
      else estatus_sim st (es_st (esolo_run id (N.of_nat c) k (esolo_init k) rest))
  end.

(* the history without the acks bearing call id [i] *)
Definition drop_acks (i : N) (evs : list eev) : list eev :=
  filter (fun e => match e with EAck i' _ _ => negb (i' =? i) | _ => true end) evs.

Fixpoint call_ids (evs : list eev) : list N :=
  match evs with
  | [] => []
  | ECall _ id :: evs' => id :: call_ids evs'
  | _ :: evs' => call_ids evs'
  end.

Fixpoint incoming (reply : bool) (evs : list eev) : list dcall :=
  match evs with
  | [] => []
  | EIn d :: evs' => if Bool.eqb (negb (d_req d =? 0)) reply then d :: incoming reply evs' else incoming reply evs'
  | _ :: evs' => incoming reply evs'
  end.

(* --- correspondence case --- *)
Record e2e_case := mkE2eCase {
  ec_evs : list eev;                  (* the history, as linearised by the harness; call ids numbered
                                         in order of first appearance at the broker *)
  ec_out : list (option estatus);     (* observed: what each caller returned *)
  ec_sent : list (N * N);             (* observed: UpstreamCall messages at the broker, per caller in
                                         caller order: (call id, request call id) *)
  ec_rcalls : list dcall;             (* observed: results of ReceiveCall in order *)
  ec_rreplies : list dcall;           (* observed: results of ReceiveReplyCall in order *)
  ec_drained : bool                   (* the harness received until both inboxes stayed empty *)
}.

Fixpoint eout_match (f : nat -> estatus -> bool) (c : nat) (obs : list (option estatus)) : bool :=
  match obs with
  | [] => true
  | None :: obs' => eout_match f (S c) obs'
  | Some st :: obs' => f c st && eout_match f (S c) obs'
  end.

Definition pairN_eqb (a b : N * N) : bool := (fst a =? fst b) && (snd a =? snd b).

Definition e2e_model (c : e2e_case) : estate := erun einit (ec_evs c).

Definition e2e_corr (c : e2e_case) : bool :=
  let s := e2e_model c in
  eout_match (fun i st => match estatus_of s (N.of_nat i) with Some st' => estatus_sim st st' | None => false end)
             0 (ec_out c)
  && list_beq _ pairN_eqb (e_sent s) (ec_sent c)
  && list_beq _ dcall_eqb (e_rcalls s) (ec_rcalls c)
  && list_beq _ dcall_eqb (e_rreplies s) (ec_rreplies c)
  && negb (e_stuck s).

Fixpoint subseqb (a b : list dcall) : bool :=     (* a is a subsequence of b *)
  match b with
  | [] => match a with [] => true | _ => false end
  | y :: b' =>
      match a with
      | [] => true
      | x :: a' => if dcall_eqb x y then subseqb a' b' else subseqb a b'
      end
  end.

(* --- C16 predicate on the observation (never consults estep) --- *)
Definition inbox_ok (drained : bool) (got arr : list dcall) : bool :=
  subseqb got arr
  && (if drained && (N.of_nat (length arr) <=? inbox_cap) then list_beq _ dcall_eqb got arr else true).

Definition c16_ok (c : e2e_case) : bool :=
  (* fresh, non-empty call ids on the wire *)
  nodupb (map fst (ec_sent c)) && forallb (fun x => negb (fst x =? 0)) (ec_sent c)
  (* every caller returned exactly what the one-caller specification says *)
  && eout_match (fun i st => espec_ok i (ec_evs c) st) 0 (ec_out c)
  (* inboxes: what was received arrived, once each, unmodified, in arrival order; when the harness
     drained the inbox and no more than its capacity ever arrived, nothing is missing *)
  && inbox_ok (ec_drained c) (ec_rcalls c) (incoming false (ec_evs c))
  && inbox_ok (ec_drained c) (ec_rreplies c) (incoming true (ec_evs c)).

Definition e2e_judge (c : e2e_case) : N :=
  (if e2e_corr c then 0 else 1) + (if c16_ok c then 0 else 2).

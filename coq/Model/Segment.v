(* Model of internal/segment: SendTo (sender.go) and ReadBuffers.Receive / RemoveExpired
   (read_buffer.go), as repaired by the fix: commits for F17 (length check) and F20
   (slot count computed in int).  Executable; no proofs here. *)
From Coq Require Import List NArith Bool.
From Iscp Require Import Lib.ListMap Lib.Bytes.
Import ListNotations.
Open Scope N_scope.

(* ---------- datagram header: seq(4) | maxIndex(2) | index(2), big endian ---------- *)

Record dgram := mkD { d_seq : N; d_max : N; d_idx : N; d_pay : list N }.

Definition encode_dgram (d : dgram) : list N :=
  be32 (d_seq d) ++ be16 (d_max d) ++ be16 (d_idx d) ++ d_pay d.

(* None = shorter than the 8-byte header (the code discards it) *)
Definition decode_dgram (raw : list N) : option dgram :=
  match raw with
  | s0 :: s1 :: s2 :: s3 :: m0 :: m1 :: i0 :: i1 :: pay =>
      Some (mkD (rd32 s0 s1 s2 s3) (rd16 m0 m1) (rd16 i0 i1) pay)
  | _ => None
  end.

(* ---------- sender ---------- *)

(* n+1 pieces: n pieces of exactly P bytes (while available) and the rest *)
Fixpoint chop (n : nat) (P : nat) (m : list N) : list (list N) :=
  match n with
  | O => [m]
  | S n' => firstn P m :: chop n' P (skipn P m)
  end.

Fixpoint number (i : N) (l : list (list N)) : list (N * list N) :=
  match l with
  | [] => []
  | x :: l' => (i, x) :: number (i + 1) l'
  end.

Definition max_u16 : N := 65535.

(* SendTo: None = refused (more than 65536 segments) *)
Definition split (P : N) (seq : N) (m : list N) : option (list dgram) :=
  let len := N.of_nat (length m) in
  if len <=? P then Some [mkD seq 0 0 m]
  else
    let maxi := len / P in
    if max_u16 <? maxi then None
    else Some (map (fun ip => mkD seq maxi (fst ip) (snd ip))
                   (number 0 (chop (N.to_nat maxi) (N.to_nat P) m))).

(* bytes reported by SendTo: total datagram bytes *)
Definition sent_size (ds : list dgram) : N :=
  fold_right (fun d acc => 8 + N.of_nat (length (d_pay d)) + acc) 0 ds.

(* sender sequence number: atomic.AddUint32(&seq, 1), initial value MaxUint32 *)
Definition seq_init : N := 4294967295.
Definition seq_next (s : N) : N := (s + 1) mod 4294967296.

(* ---------- receiver ---------- *)

Record rbuf := mkR { r_cnt : N; r_slots : list (option (list N)); r_exp : N }.
Definition buffers := lmap rbuf.

Fixpoint set_slot (i : nat) (v : list N) (l : list (option (list N))) : list (option (list N)) :=
  match l, i with
  | [], _ => []
  | _ :: l', O => Some v :: l'
  | x :: l', S i' => x :: set_slot i' v l'
  end.

Definition build (slots : list (option (list N))) : list N :=
  concat (map (fun o => match o with Some b => b | None => [] end) slots).

(* Receive at time [now] with expiry [ex]; output = (seq, message) when complete *)
Definition receive_d (ex now : N) (bs : buffers) (d : dgram) : buffers * option (N * list N) :=
  let buf := match lookup (d_seq d) bs with
             | Some b => b
             | None => mkR 0 (repeat None (N.to_nat (d_max d + 1))) 0
             end in
  let buf := mkR (r_cnt buf) (r_slots buf) (now + ex) in
  if N.of_nat (length (r_slots buf)) <=? d_idx d then (insert (d_seq d) buf bs, None)
  else
    let buf' := mkR (r_cnt buf + 1) (set_slot (N.to_nat (d_idx d)) (d_pay d) (r_slots buf)) (r_exp buf) in
    if N.of_nat (length (r_slots buf')) =? r_cnt buf'
    then (remove (d_seq d) bs, Some (d_seq d, build (r_slots buf')))
    else (insert (d_seq d) buf' bs, None).

Definition receive (ex now : N) (bs : buffers) (raw : list N) : buffers * option (N * list N) :=
  match decode_dgram raw with
  | None => (bs, None)
  | Some d => receive_d ex now bs d
  end.

(* RemoveExpired: drop buffers with now > ExpiredAt *)
Definition expire (now : N) (bs : buffers) : buffers :=
  filter (fun kb => negb (r_exp (snd kb) <? now)) bs.

(* ---------- event runs ---------- *)

Inductive sev := Recv (now : N) (raw : list N) | Expire (now : N).

Definition sstep (ex : N) (bs : buffers) (e : sev) : buffers * option (N * list N) :=
  match e with
  | Recv now raw => receive ex now bs raw
  | Expire now => (expire now bs, None)
  end.

Fixpoint srun (ex : N) (bs : buffers) (evs : list sev) : buffers * list (option (N * list N)) :=
  match evs with
  | [] => (bs, [])
  | e :: evs' =>
      let r := sstep ex bs e in
      let r' := srun ex (fst r) evs' in
      (fst r', snd r :: snd r')
  end.

(* ---------- the correspondence case and the property predicate ---------- *)

Definition list_N_eqb := list_beq N N.eqb.
Definition opt_eqb {A} (eq : A -> A -> bool) (a b : option A) : bool :=
  match a, b with
  | None, None => true
  | Some x, Some y => eq x y
  | _, _ => false
  end.

Record seg_case := mkSegCase {
  sc_P : N;
  sc_ex : N;
  sc_msgs : list (N * list N);              (* (sequence number, payload) given to SendTo *)
  sc_sent : list (option (list (list N)));  (* observed: datagrams emitted per message, None = refused *)
  sc_sizes : list N;                        (* observed: byte count returned by SendTo (0 when refused) *)
  sc_evs : list sev;                        (* events fed to the receiver *)
  sc_outs : list (option (list N))          (* observed: message handed up per event *)
}.

Definition model_sent (P : N) (sm : N * list N) : option (list (list N)) :=
  option_map (map encode_dgram) (split P (fst sm) (snd sm)).
Definition model_size (P : N) (sm : N * list N) : N :=
  match split P (fst sm) (snd sm) with Some ds => sent_size ds | None => 0 end.
Definition model_outs (ex : N) (evs : list sev) : list (option (list N)) :=
  map (option_map snd) (snd (srun ex [] evs)).

Definition seg_corr (c : seg_case) : bool :=
  list_beq _ (opt_eqb (list_beq _ list_N_eqb)) (map (model_sent (sc_P c)) (sc_msgs c)) (sc_sent c)
  && list_N_eqb (map (model_size (sc_P c)) (sc_msgs c)) (sc_sizes c)
  && list_beq _ (opt_eqb list_N_eqb) (model_outs (sc_ex c) (sc_evs c)) (sc_outs c).

(* The property predicate, on the observation alone (it never consults the receiver model).
   A case is "in scope" when no Expire event occurs, every received datagram is one of the
   emitted segments, no segment is received twice and sequence numbers of the messages are
   distinct.  Then: a message is handed up exactly at the arrival of the last of its
   segments, it equals the original bytes, and nothing else is ever handed up. *)
Definition raws_of (c : seg_case) : list (list N) :=
  concat (map (fun e => match e with Recv _ r => [r] | Expire _ => [] end) (sc_evs c)).
Definition no_expire (c : seg_case) : bool :=
  forallb (fun e => match e with Recv _ _ => true | Expire _ => false end) (sc_evs c).
Fixpoint nodupb (l : list (list N)) : bool :=
  match l with
  | [] => true
  | x :: l' => negb (existsb (list_N_eqb x) l') && nodupb l'
  end.
Definition all_sent (c : seg_case) : list (list N) :=
  concat (map (fun o => match o with Some ds => ds | None => [] end) (sc_sent c)).
Definition mem_raw (r : list N) (l : list (list N)) : bool := existsb (list_N_eqb r) l.
Fixpoint nodupN (l : list N) : bool :=
  match l with [] => true | x :: l' => negb (existsb (N.eqb x) l') && nodupN l' end.
Definition in_scope (c : seg_case) : bool :=
  no_expire c && nodupb (raws_of c) && forallb (fun r => mem_raw r (all_sent c)) (raws_of c)
  && nodupN (map fst (sc_msgs c))
  && (N.of_nat (length (sc_sent c)) =? N.of_nat (length (sc_msgs c))).

(* expected output at each position, computed from the sender's datagrams only *)
Fixpoint expected_outs (msgs : list (list N * list (list N))) (seen : list (list N)) (arr : list (list N))
  : list (option (list N)) :=
  match arr with
  | [] => []
  | r :: arr' =>
      let seen' := r :: seen in
      let done := find (fun md => mem_raw r (snd md) && forallb (fun d => mem_raw d seen') (snd md)) msgs in
      option_map fst done :: expected_outs msgs seen' arr'
  end.
Definition msgs_with_dgrams (c : seg_case) : list (list N * list (list N)) :=
  concat (map (fun ms => match snd ms with Some ds => [(snd (fst ms), ds)] | None => [] end)
              (combine (sc_msgs c) (sc_sent c))).

Definition seg_ok (c : seg_case) : bool :=
  if in_scope c
  then list_beq _ (opt_eqb list_N_eqb) (expected_outs (msgs_with_dgrams c) [] (raws_of c)) (sc_outs c)
  else true.

(* judge flags: bit0 = correspondence broken, bit1 = property predicate false *)
Definition seg_judge (c : seg_case) : N :=
  (if seg_corr c then 0 else 1) + (if seg_ok c then 0 else 2).

(* Model of the stream framing and the datagram layer of transport/quic/transport.go and
   transport/quic/datagram.go (transport/webtransport has the same text):
     writeTo     : 4-byte big-endian length prefix, then the payload (two Write calls under sendMu)
     decodeFrom  : io.ReadFull of 4 bytes, io.ReadFull of that many bytes
     counters    : tx += 4+len(payload) per Write, rx += 4+msgLength per decoded frame,
                   tx += datagram bytes per unreliable write, rx += len(datagram) per datagram
     datagrams   : one sequence counter (initially MaxUint32, atomic add 1) shared by
                   Transport.WriteUnreliable and every AsUnreliable() handle; segment.SendTo.
   Executable; no proofs here. *)
From Coq Require Import List NArith Bool.
From Iscp Require Import Lib.ListMap Lib.Bytes Model.Segment.
Import ListNotations.
Open Scope N_scope.

Definition two32 : N := 4294967296.
Definition two64 : N := 18446744073709551616.
Definition lenN {A} (l : list A) : N := N.of_nat (length l).

(* ---------- stream framing ---------- *)

(* writeTo: binary.BigEndian.PutUint32(prefix, uint32(len(payload))) ; the whole payload follows *)
Definition frame (p : list N) : list N := be32 (lenN p mod two32) ++ p.

(* decodeFrom on the bytes still unread: None = ReadFull fails (stream ends inside a frame) *)
Definition parse1 (s : list N) : option (list N * list N) :=
  match s with
  | a :: b :: c :: d :: rest =>
      let n := rd32 a b c d in
      if n <=? lenN rest then Some (firstn (N.to_nat n) rest, skipn (N.to_nat n) rest) else None
  | _ => None
  end.

(* repeated decodeFrom until the stream is exhausted; the boolean says the stream ended on a
   frame boundary.  Every step consumes at least 4 bytes, fuel = length of the stream suffices. *)
Fixpoint parse_fuel (fuel : nat) (s : list N) : list (list N) * bool :=
  match s with
  | [] => ([], true)
  | _ =>
      match fuel with
      | O => ([], false)
      | S f =>
          match parse1 s with
          | None => ([], false)
          | Some mr => let r := parse_fuel f (snd mr) in (fst mr :: fst r, snd r)
          end
      end
  end.
Definition parse_all (s : list N) : list (list N) * bool := parse_fuel (length s) s.

(* counters (uint64, atomic add) *)
Definition add64 (a b : N) : N := (a + b) mod two64.

(* sender side of the reliable stream: state = (bytes put on the stream so far, tx counter);
   the payload is what encodeFunc returned (the message itself when compression is off) *)
Record qtx := mkQtx { q_stream : list N; q_tx : N }.
Definition q_write (s : qtx) (payload : list N) : qtx :=
  mkQtx (q_stream s ++ frame payload) (add64 (q_tx s) (4 + lenN payload)).
Definition q_write_all (s : qtx) (ps : list (list N)) : qtx := fold_left q_write ps s.

(* receiver side: frames decoded from a stream and the rx counter *)
Definition q_rx_count (frames : list (list N)) : N :=
  fold_left (fun a p => add64 a (4 + lenN p)) frames 0.

(* ---------- datagram path ---------- *)

(* one unreliable write through any handle: counter++, split, tx += bytes sent *)
Record dtx := mkDtx { d_seqctr : N; d_out : list (list N); d_tx : N }.
Definition d_init : dtx := mkDtx seq_init [] 0.
Definition d_write (P : N) (s : dtx) (payload : list N) : dtx :=
  let sq := seq_next (d_seqctr s) in
  match split P sq payload with
  | Some ds => mkDtx sq (d_out s ++ map encode_dgram ds) (add64 (d_tx s) (sent_size ds))
  | None => mkDtx sq (d_out s) (d_tx s)
  end.
Definition d_write_all (P : N) (s : dtx) (ps : list (list N)) : dtx := fold_left (d_write P) ps s.

(* receiver: the transport's receive goroutine feeds every datagram to ReadBuffers.Receive and
   hands up completed messages in completion order *)
Definition d_receive_all (raws : list (list N)) : list (list N) :=
  concat (map (fun o => match o with Some sm => [snd sm] | None => [] end)
              (snd (srun 1 [] (map (Recv 0) raws)))).

(* ---------- helpers for the predicates ---------- *)

Definition bytes_eqb := list_beq N N.eqb.
Definition msgs_eqb := list_beq (list N) bytes_eqb.

(* l is an interleaving of the lists ws that keeps each list's order.  Greedy on the heads: the
   harness makes the first byte of every non-empty message the writer's number, and only
   writer 0 writes empty messages, so heads of different writers never coincide. *)
Fixpoint take_head (m : list N) (ws : list (list (list N))) : option (list (list (list N))) :=
  match ws with
  | [] => None
  | [] :: ws' => option_map (cons []) (take_head m ws')
  | (h :: t) :: ws' =>
      if bytes_eqb h m then Some (t :: ws')
      else option_map (cons (h :: t)) (take_head m ws')
  end.
Fixpoint interleaving (ws : list (list (list N))) (l : list (list N)) : bool :=
  match l with
  | [] => forallb (fun w => match w with [] => true | _ => false end) ws
  | m :: l' => match take_head m ws with Some ws' => interleaving ws' l' | None => false end
  end.

Fixpoint remove_first (m : list N) (l : list (list N)) : option (list (list N)) :=
  match l with
  | [] => None
  | x :: l' => if bytes_eqb x m then Some l' else option_map (cons x) (remove_first m l')
  end.
Fixpoint is_perm (a b : list (list N)) : bool :=
  match a with
  | [] => match b with [] => true | _ => false end
  | x :: a' => match remove_first x b with Some b' => is_perm a' b' | None => false end
  end.

Definition sumlen (l : list (list N)) : N := fold_left (fun a p => a + lenN p) l 0.
Definition all_some {A} (l : list (option A)) : bool :=
  forallb (fun o => match o with Some _ => true | None => false end) l.
Definition somes {A} (l : list (option A)) : list A :=
  concat (map (fun o => match o with Some x => [x] | None => [] end) l).

(* sequence number / header fields of a raw datagram (0 when shorter than the header) *)
Definition raw_seq (r : list N) : N := match decode_dgram r with Some d => d_seq d | None => 0 end.
Fixpoint dedup (l : list N) : list N :=
  match l with
  | [] => []
  | x :: l' => x :: filter (fun y => negb (y =? x)) (dedup l')
  end.
Fixpoint insert_sorted (x : N) (l : list N) : list N :=
  match l with
  | [] => [x]
  | y :: l' => if x <=? y then x :: l else y :: insert_sorted x l'
  end.
Definition sortN (l : list N) : list N := fold_right insert_sorted [] l.
Fixpoint countup (i : N) (n : nat) : list N :=
  match n with O => [] | S n' => i :: countup (i + 1) n' end.

(* the datagrams that carry sequence number s, in emission order *)
Definition group (s : N) (raws : list (list N)) : list (list N) :=
  filter (fun r => raw_seq r =? s) raws.
(* a group is well formed for payload size P when it is exactly what SendTo emits for the
   concatenation of its payloads (C14's sender model is the specification of a segmentation) *)
Definition group_payload (g : list (list N)) : list N := concat (map (skipn 8) g).
Definition group_wf (P s : N) (g : list (list N)) : bool :=
  match split P s (group_payload g) with
  | Some ds => msgs_eqb (map encode_dgram ds) g
  | None => false
  end.

(* ---------- the correspondence cases ---------- *)

Inductive qf_case :=
| QStream
    (comp : bool)                       (* input: compression negotiated (level non-zero) *)
    (writers : list (list (list N)))    (* input: per writer goroutine, its messages in write order *)
    (stream : list N)                   (* observed: all bytes written to the fake send stream, in order *)
    (dec : list (option (list N)))      (* observed: the harness's own parser + inflater applied to the stream, per frame *)
    (clean : bool)                      (* observed: the harness's own parser ended on a frame boundary *)
    (reads : list (option (list N)))    (* observed: peer Transport.Read results, None = error *)
    (tx rx : N)                         (* observed: writer's tx counter, reader's rx counter *)
| QDgram
    (P : N)                             (* input: segment payload size (hook) *)
    (comp : bool)
    (conc : bool)                       (* input: the writes ran concurrently *)
    (ops : list (N * list N))           (* input: (handle, message); handle 0 = Transport.WriteUnreliable, k>0 = k-th AsUnreliable() handle *)
    (sent : list (list N))              (* observed: datagrams given to SendDatagram, in order *)
    (pays : list (option (list N)))     (* observed: per sequence number in order of first appearance, inflate of the group payload (the payload itself when compression is off) *)
    (delivered : list (list N))         (* input/observed: the datagrams in the order they were handed to the peer *)
    (reads : list (list N))             (* observed: peer unreliable Read results, in order *)
    (tx rx : N)                         (* observed: writer transport tx counter, peer transport rx counter *)
    (htx : list (N * N))                (* observed: (handle k>0, its own TxBytesCounterValue) *)
| QTimed
    (P : N)                             (* input: segment payload size (hook) *)
    (dflt : bool)                       (* input: Config.ReadBufferExpiry left unset (what quic.Dialer does) *)
    (ex : N)                            (* input: the expiry in ms that is in force: the configured one, or the
                                           DOCUMENTED default [default_read_buffer_expiry_ms] when dflt *)
    (msgs : list (list N))              (* input: messages written one after the other with WriteUnreliable *)
    (sent : list (list N))              (* observed: datagrams given to SendDatagram, in order *)
    (sched : list (N * N))              (* input: (ms after the first delivery, index into sent), in delivery order,
                                           times non-decreasing: when each datagram is handed to the peer *)
    (reads : list (list N)).            (* observed: peer unreliable Read results, in order *)

(* ----- datagram arrival in real time: expiry and the cleaner goroutine ----- *)

(* transport/quic Config: "ReadBufferExpiry ... 0: the default, 10 s" (New fills it in) *)
Definition default_read_buffer_expiry_ms : N := 10000.
(* clearReadBufferInterval: RemoveExpired runs every second *)
Definition cleaner_interval_ms : N := 1000.
(* margins for the real clock on a loaded machine *)
Definition slack_ms : N := 500.

(* the history the model is run on: each datagram at its scheduled time, and just before it a
   cleaner tick - standing for "the cleaner ran at some moment since the previous datagram".
   That is exact when every gap between two datagrams of one message is sharp: either shorter than the expiry by [slack_ms] (then by
   Proofs/FramingProofs timely_ticks_harmless no tick in the gap can matter) or longer than
   expiry + one cleaner interval + slack (then a tick certainly fell after the deadline). *)
Definition timed_events (sent : list (list N)) (sched : list (N * N)) : list sev :=
  concat (map (fun ti => [Expire (fst ti); Recv (fst ti) (nth (N.to_nat (snd ti)) sent [])]) sched).
(* for every delivery but the first of its sequence number: the time since the previous datagram
   of the SAME sequence number (a buffer's deadline is re-armed by each of its own segments) *)
Fixpoint seq_gaps (sent : list (list N)) (last : list (N * N)) (sched : list (N * N)) : list N :=
  match sched with
  | [] => []
  | ti :: sched' =>
      let sq := raw_seq (nth (N.to_nat (snd ti)) sent []) in
      let rest := seq_gaps sent ((sq, fst ti) :: last) sched' in
      match find (fun kv => fst kv =? sq) last with
      | Some kv => (fst ti - snd kv) :: rest
      | None => rest
      end
  end.
Definition sched_gaps (sent : list (list N)) (sched : list (N * N)) : list N := seq_gaps sent [] sched.
Definition gap_short (ex g : N) : bool := g + slack_ms <=? ex.
Definition gap_long (ex g : N) : bool := ex + cleaner_interval_ms + slack_ms + 200 <=? g.
Definition sharp (ex : N) (sent : list (list N)) (sched : list (N * N)) : bool :=
  forallb (fun g => gap_short ex g || gap_long ex g) (sched_gaps sent sched).
Definition timed_outs (ex : N) (sent : list (list N)) (sched : list (N * N)) : list (list N) :=
  concat (map (fun o => match o with Some sm => [snd sm] | None => [] end)
              (snd (srun ex [] (timed_events sent sched)))).
Fixpoint nodup_msgs (l : list (list N)) : bool :=
  match l with [] => true | x :: l' => negb (existsb (list_beq N N.eqb x) l') && nodup_msgs l' end.

Definition qf_corr (c : qf_case) : bool :=
  match c with
  | QStream comp writers stream dec clean reads tx rx =>
      let p := parse_all stream in
      Bool.eqb (snd p) clean
      && (lenN (fst p) =? lenN dec)
      && (tx =? q_tx (q_write_all (mkQtx [] 0) (fst p)))
      && (rx =? q_rx_count (fst p))
      && (if comp then true
          else
            (* compression off: encodeFunc is the identity, so the model predicts every byte:
               the stream is the concatenation of the frames of the messages in the order in
               which they reached the stream, and the peer reads exactly those *)
            all_some dec
            && bytes_eqb (q_stream (q_write_all (mkQtx [] 0) (somes dec))) stream
            && list_beq _ (opt_eqb bytes_eqb) (map Some (fst p)) reads)
  | QDgram P comp conc ops sent pays delivered reads tx rx htx =>
      (* the sequence counter: n writes use 0..n-1 whatever the handles *)
      list_beq _ N.eqb (sortN (dedup (map raw_seq sent))) (countup 0 (length ops))
      (* the receive side is deterministic in the delivery order (compressed payloads are
         inflated afterwards, which the model does not predict) *)
      && (if comp then true else msgs_eqb (d_receive_all delivered) reads)
      (* sequential, uncompressed writes: the model predicts every datagram byte *)
      && (if comp || conc then true
          else
            let s := d_write_all P d_init (map snd ops) in
            msgs_eqb (d_out s) sent && (tx =? d_tx s))
  | QTimed P dflt ex msgs sent sched reads =>
      (* the default that is in force is the documented one *)
      (if dflt then ex =? default_read_buffer_expiry_ms else true)
      && msgs_eqb (d_out (d_write_all P d_init msgs)) sent
      (* sharp schedules: the model predicts exactly what is handed up, in order *)
      && (if sharp ex sent sched then msgs_eqb (timed_outs ex sent sched) reads else true)
  end.

(* The property predicate, on the observation only. *)
Definition qf_ok (c : qf_case) : bool :=
  match c with
  | QStream comp writers stream dec clean reads tx rx =>
      (* the wire is decodable by the independent parser/inflater, frame by frame, into exactly
         the written messages, each writer's order kept (no interleaving inside a frame) *)
      clean && all_some dec && interleaving writers (somes dec)
      (* the peer reads the same messages, one per call, same order *)
      && list_beq _ (opt_eqb bytes_eqb) dec reads
      (* counters equal the bytes actually framed *)
      && (tx =? lenN stream mod two64) && (rx =? lenN stream mod two64)
  | QDgram P comp conc ops sent pays delivered reads tx rx htx =>
      let seqs := dedup (map raw_seq sent) in
      (* sequence numbers over all handles: pairwise distinct, first is 0, no gaps *)
      list_beq _ N.eqb (sortN seqs) (countup 0 (length ops))
      && (if conc then true else list_beq _ N.eqb seqs (countup 0 (length ops)))
      (* every sequence number carries a well-formed segmentation ... *)
      && forallb (fun s => group_wf P s (group s sent)) seqs
      (* ... of exactly one written message *)
      && all_some pays && (lenN pays =? lenN seqs)
      && is_perm (map snd ops) (somes pays)
      && (if conc then true else msgs_eqb (map snd ops) (somes pays))
      (* when every datagram is delivered (in any order, interleaved) every message is read once *)
      && (if is_perm sent delivered then is_perm (map snd ops) reads else true)
      (* and never anything that was not written *)
      && forallb (fun r => existsb (bytes_eqb r) (map snd ops)) reads
      (* counters *)
      && (tx =? sumlen sent mod two64) && (rx =? sumlen delivered mod two64)
      && forallb (fun kt => snd kt =? sumlen (map snd (filter (fun o => fst o =? fst kt) ops)) mod two64) htx
  | QTimed P dflt ex msgs sent sched reads =>
      (* exactly or not at all: whatever the timing, everything handed up is a written message,
         whole, and none twice (the harness makes the messages pairwise distinct) *)
      forallb (fun r => existsb (bytes_eqb r) msgs) reads && nodup_msgs reads
      (* every datagram delivered once and every gap within the expiry (less the slack): each
         message is handed up - incomplete messages are kept for the documented time *)
      && (if is_perm sent (map (fun ti => nth (N.to_nat (snd ti)) sent []) sched)
             && forallb (gap_short ex) (sched_gaps sent sched)
          then is_perm msgs reads else true)
  end.

Definition qf_judge (c : qf_case) : N :=
  (if qf_corr c then 0 else 1) + (if qf_ok c then 0 else 2).

(* Model of transport/multi: NewTransport/validateConfig, transportIDLoop, readLoop, Read, Write,
   AsUnreliable, NegotiationParams, CloseWithStatus, the two byte counters (transport.go, as
   repaired by the fix: commit for F18), NICEventSubscriber (event_scheduler_nic.go),
   RoundRobinPoller and LastUsedPoller (as written).  Executable; no proofs here.

   Transport ids are N; 0 stands for the empty id "".  Go map lookups are first-match lookups in
   a list of members; a lookup that misses yields the nil interface and the method call on it
   is the explicit outcome OPanic. *)
From Coq Require Import List NArith Bool.
From Iscp Require Import Lib.ListMap.
Import ListNotations.
Open Scope N_scope.

(* ---------- configuration ---------- *)

(* one scripted member transport as handed to NewTransport *)
Record mspec := mkMS {
  ms_id : N;
  ms_gid_ok : bool;      (* NegotiationParams().TransportGroupID <> "" *)
  ms_gcount : N;         (* NegotiationParams().TransportGroupTotalCount *)
  ms_closer : bool;      (* implements transport.Closer *)
  ms_unrel : bool;       (* AsUnreliable() reports ok *)
  ms_wfail : bool;       (* its Write always fails *)
  ms_cerr : bool         (* its Close/CloseWithStatus returns an error *)
}.

Inductive pollcfg := PCScript | PCRR (ids : list N) | PCLastUsed.
Inductive evcfg := ECScript | ECNic (nicmap : list (N * N)) | ECNilSub.

Record mcfg := mkCfg {
  c_members : list mspec;
  c_initial : N;
  c_mode : N;                      (* 0 = SchedulerModePolling, 1 = SchedulerModeEvent, other = invalid *)
  c_poll : option pollcfg;         (* TransportConfig.PollingScheduler (None = nil) *)
  c_event : option evcfg           (* TransportConfig.EventScheduler (None = nil) *)
}.

Definition has_id (id : N) (ms : list mspec) : bool := existsb (fun m => ms_id m =? id) ms.
Definition group_ok (ms : list mspec) : bool :=
  forallb (fun m => ms_gid_ok m && (ms_gcount m =? N.of_nat (length ms))) ms.

(* NewTransport result class: 0 accepted; 1 empty map; 2 initial id not a member; 3 group id /
   group count; 4 invalid scheduler mode; 5 missing event scheduler or subscriber *)
Definition new_class (c : mcfg) : N :=
  match c_members c with
  | [] => 1
  | _ =>
    if negb (has_id (c_initial c) (c_members c)) then 2
    else if negb (group_ok (c_members c)) then 3
    else match c_mode c with
         | 0 => 0
         | 1 => match c_event c with
                | None => 5
                | Some ECNilSub => 5
                | Some _ => 0
                end
         | _ => 4
         end
  end.

(* ---------- state ---------- *)

Record member := mkM {
  m_id : N; m_closer : bool; m_unrel : bool; m_wfail : bool; m_cerr : bool;
  m_wlog : list (list N);      (* writes this member accepted, oldest first *)
  m_rlog : list (list N);      (* messages this member's Read handed out, oldest first *)
  m_tx : N; m_rx : N;          (* the member's own byte counters *)
  m_dead : bool;               (* the member's reader goroutine has returned *)
  m_closes : list N            (* close calls received: status+1 for CloseWithStatus, 0 for Close *)
}.

Inductive poller := PNone | PRR (ids : list N) (cur : nat) | PLastUsed.

Record mstate := mkS {
  s_members : list member;
  s_cur : N;                       (* currentTransportID *)
  s_closed : bool;                 (* ctx cancelled *)
  s_queue : list (N * list N);     (* readResCh, tagged with the member it came from *)
  s_lastread : N;                  (* lastReadTransportID *)
  s_nic : list (N * N);            (* NICTransportID *)
  s_poller : poller
}.

Definition mk_member (s : mspec) : member :=
  mkM (ms_id s) (ms_closer s) (ms_unrel s) (ms_wfail s) (ms_cerr s) [] [] 0 0 false [].

Definition init_poller (c : mcfg) : poller :=
  match c_mode c, c_poll c with
  | 0, Some (PCRR ids) => PRR ids 0
  | 0, Some PCLastUsed => PLastUsed
  | _, _ => PNone
  end.
Definition init_nic (c : mcfg) : list (N * N) :=
  match c_mode c, c_event c with
  | 1, Some (ECNic m) => m
  | _, _ => []
  end.

Definition mt_new (c : mcfg) : option mstate :=
  if new_class c =? 0
  then Some (mkS (map mk_member (c_members c)) (c_initial c) false [] 0 (init_nic c) (init_poller c))
  else None.

Fixpoint find_m (id : N) (ms : list member) : option member :=
  match ms with
  | [] => None
  | m :: ms' => if m_id m =? id then Some m else find_m id ms'
  end.
Fixpoint upd_m (id : N) (f : member -> member) (ms : list member) : list member :=
  match ms with
  | [] => []
  | m :: ms' => if m_id m =? id then f m :: ms' else m :: upd_m id f ms'
  end.

Definition total_len (l : list (list N)) : N := fold_right (fun b acc => N.of_nat (length b) + acc) 0 l.
Definition sum_rx (ms : list member) : N := fold_right (fun m acc => m_rx m + acc) 0 ms.
Definition sum_tx (ms : list member) : N := fold_right (fun m acc => m_tx m + acc) 0 ms.

Definition set_members st ms := mkS ms (s_cur st) (s_closed st) (s_queue st) (s_lastread st) (s_nic st) (s_poller st).
Definition set_cur st id := mkS (s_members st) id (s_closed st) (s_queue st) (s_lastread st) (s_nic st) (s_poller st).
Definition set_poller st p := mkS (s_members st) (s_cur st) (s_closed st) (s_queue st) (s_lastread st) (s_nic st) p.
Definition set_queue st q := mkS (s_members st) (s_cur st) (s_closed st) q (s_lastread st) (s_nic st) (s_poller st).

Definition m_add_write (bs : list N) (m : member) : member :=
  mkM (m_id m) (m_closer m) (m_unrel m) (m_wfail m) (m_cerr m) (m_wlog m ++ [bs]) (m_rlog m)
      (m_tx m + N.of_nat (length bs)) (m_rx m) (m_dead m) (m_closes m).
Definition m_add_read (bs : list N) (m : member) : member :=
  mkM (m_id m) (m_closer m) (m_unrel m) (m_wfail m) (m_cerr m) (m_wlog m) (m_rlog m ++ [bs])
      (m_tx m) (m_rx m + N.of_nat (length bs)) (m_dead m) (m_closes m).
Definition m_set_dead (m : member) : member :=
  mkM (m_id m) (m_closer m) (m_unrel m) (m_wfail m) (m_cerr m) (m_wlog m) (m_rlog m)
      (m_tx m) (m_rx m) true (m_closes m).
Definition close_code (closer : bool) (status : N) : N := if closer then status + 1 else 0.
Definition m_add_close (status : N) (m : member) : member :=
  mkM (m_id m) (m_closer m) (m_unrel m) (m_wfail m) (m_cerr m) (m_wlog m) (m_rlog m)
      (m_tx m) (m_rx m) (m_dead m) (m_closes m ++ [close_code (m_closer m) status]).
Definition m_is_closed (m : member) : bool := match m_closes m with [] => false | _ => true end.

(* ---------- events and outcomes ---------- *)

Inductive mev :=
| Select (id : N)                    (* the scheduler channel delivers id (scripted poller / scripted subscriber) *)
| Nic (name : N)                     (* the NIC listener reports a NIC name *)
| Tick                               (* the polling ticker fires: Poller.Get() *)
| Write (bs : list N)
| MemberRead (i : N) (bs : list N)   (* member i's Read returns bs to its reader goroutine *)
| MemberFail (i : N)                 (* member i's Read returns an error *)
| Read (take : bool)                 (* Transport.Read; [take] resolves the select race after Close *)
| Neg                                (* NegotiationParams() *)
| Unrel                              (* AsUnreliable() *)
| Counters                           (* RxBytesCounterValue(), TxBytesCounterValue() *)
| Close (status : N).                (* CloseWithStatus *)

Inductive mout :=
| OUnit
| OSel (id : N)                      (* the id the scheduler emitted *)
| OWrite (target : N) (ok : bool)    (* member whose Write was called; Write returned nil *)
| ORead (r : option (list N))        (* Some message | None = ErrAlreadyClosed *)
| ONeg (tid : N)                     (* TransportID of the params returned *)
| OUnrel (tid : N) (ok : bool)
| OCounters (rx tx : N)
| OClose (err : bool)
| OPanic
| OBlocked.

(* transportIDLoop body for one id *)
Definition apply_select (st : mstate) (id : N) : mstate :=
  if s_closed st then st
  else match find_m id (s_members st) with
       | None => st                                   (* "Ignoring unknown transport ID" *)
       | Some _ => if s_cur st =? id then st else set_cur st id
       end.

(* NICTransportID[nic]: the zero value "" when the NIC is unknown *)
Definition nic_emit (m : list (N * N)) (name : N) : N :=
  match lookup name m with Some id => id | None => 0 end.

(* RoundRobinPoller.Get *)
Definition rr_get (ids : list N) (cur : nat) : N * nat :=
  match ids with
  | [] => (0, cur)
  | _ => (nth cur ids 0, Nat.modulo (S cur) (length ids))
  end.
(* LastUsedPoller.Get (with tr set by SetMultiTransport), exactly as written *)
Definition lu_get (st : mstate) : N :=
  if negb (s_lastread st =? 0) then s_cur st else s_lastread st.

Definition mstep (st : mstate) (e : mev) : mstate * mout :=
  match e with
  | Select id => (apply_select st id, OSel id)
  | Nic name => let id := nic_emit (s_nic st) name in (apply_select st id, OSel id)
  | Tick =>
      if s_closed st then (st, OUnit)
      else match s_poller st with
           | PNone => (st, OUnit)
           | PRR ids cur => let r := rr_get ids cur in
                            (apply_select (set_poller st (PRR ids (snd r))) (fst r), OSel (fst r))
           | PLastUsed => let id := lu_get st in (apply_select st id, OSel id)
           end
  | Write bs =>
      match find_m (s_cur st) (s_members st) with
      | None => (st, OPanic)
      | Some m =>
          if m_wfail m || m_is_closed m then (st, OWrite (m_id m) false)
          else (set_members st (upd_m (s_cur st) (m_add_write bs) (s_members st)), OWrite (m_id m) true)
      end
  | MemberRead i bs =>
      match find_m i (s_members st) with
      | None => (st, OUnit)
      | Some m =>
          if m_dead m || m_is_closed m || s_closed st then (st, OUnit)
          else (mkS (upd_m i (m_add_read bs) (s_members st)) (s_cur st) (s_closed st)
                    (s_queue st ++ [(i, bs)]) i (s_nic st) (s_poller st), OUnit)
      end
  | MemberFail i =>
      (set_members st (upd_m i m_set_dead (s_members st)), OUnit)
  | Read take =>
      match s_queue st with
      | [] => (st, if s_closed st then ORead None else OBlocked)
      | x :: q =>
          if s_closed st && negb take then (st, ORead None)
          else (set_queue st q, ORead (Some (snd x)))
      end
  | Neg =>
      match find_m (s_cur st) (s_members st) with
      | None => (st, OPanic)
      | Some m => (st, ONeg (m_id m))
      end
  | Unrel =>
      match find_m (s_cur st) (s_members st) with
      | None => (st, OPanic)
      | Some m => (st, OUnrel (m_id m) (m_unrel m))
      end
  | Counters => (st, OCounters (sum_rx (s_members st)) (sum_tx (s_members st)))
  | Close status =>
      (mkS (map (m_add_close status) (s_members st)) (s_cur st) true (s_queue st) (s_lastread st)
           (s_nic st) (s_poller st),
       OClose (existsb m_cerr (s_members st)))
  end.

Fixpoint mrun (st : mstate) (evs : list mev) : mstate * list mout :=
  match evs with
  | [] => (st, [])
  | e :: evs' =>
      let r := mstep st e in
      let r' := mrun (fst r) evs' in
      (fst r', snd r :: snd r')
  end.

(* ---------- the correspondence case ---------- *)

Record multi_case := mkMultiCase {
  mc_cfg : mcfg;
  mc_new : N;                              (* observed: NewTransport result class *)
  mc_evs : list mev;
  mc_outs : list mout;                     (* observed: one outcome per event *)
  mc_logs : list (N * list (list N));      (* observed: accepted-write log of every member, config order *)
  mc_closes : list (N * list N)            (* observed: close calls every member received, config order *)
}.

Definition list_N_eqb := list_beq N N.eqb.
Definition opt_eqb {A} (eq : A -> A -> bool) (a b : option A) : bool :=
  match a, b with
  | None, None => true
  | Some x, Some y => eq x y
  | _, _ => false
  end.
Definition mout_eqb (a b : mout) : bool :=
  match a, b with
  | OUnit, OUnit => true
  | OSel x, OSel y => x =? y
  | OWrite t o, OWrite t' o' => (t =? t') && Bool.eqb o o'
  | ORead r, ORead r' => opt_eqb list_N_eqb r r'
  | ONeg t, ONeg t' => t =? t'
  | OUnrel t o, OUnrel t' o' => (t =? t') && Bool.eqb o o'
  | OCounters r t, OCounters r' t' => (r =? r') && (t =? t')
  | OClose e, OClose e' => Bool.eqb e e'
  | OPanic, OPanic => true
  | OBlocked, OBlocked => true
  | _, _ => false
  end.
Definition logs_eqb (a b : list (N * list (list N))) : bool :=
  list_beq _ (fun x y => (fst x =? fst y) && list_beq _ list_N_eqb (snd x) (snd y)) a b.
Definition closes_eqb (a b : list (N * list N)) : bool :=
  list_beq _ (fun x y => (fst x =? fst y) && list_N_eqb (snd x) (snd y)) a b.

Definition multi_corr (c : multi_case) : bool :=
  (new_class (mc_cfg c) =? mc_new c) &&
  match mt_new (mc_cfg c) with
  | None => match mc_evs c, mc_outs c with [], [] => true | _, _ => false end
  | Some st =>
      let r := mrun st (mc_evs c) in
      list_beq _ mout_eqb (snd r) (mc_outs c)
      && logs_eqb (map (fun m => (m_id m, m_wlog m)) (s_members (fst r))) (mc_logs c)
      && closes_eqb (map (fun m => (m_id m, m_closes m)) (s_members (fst r))) (mc_closes c)
  end.

(* ---------- the property predicate: input and the implementation's observation only ----------
   Written from the property text as a trace specification; it does not call mstep/mrun. *)

Record spec := mkSp {
  sp_cur : N;                    (* last member id the scheduler emitted (initially the configured one) *)
  sp_closed : bool;
  sp_arr : list (list N);        (* messages members handed to the transport, not yet returned by Read *)
  sp_dead : list N;              (* members whose Read has failed *)
  sp_rx : N; sp_tx : N
}.

Definition memb (x : N) (l : list N) : bool := existsb (N.eqb x) l.
Definition spec_of (id : N) (ms : list mspec) : option mspec := find (fun m => ms_id m =? id) ms.

(* one observed step against the specification: None = the observation violates the property *)
Definition spec_step (ms : list mspec) (sp : spec) (eo : mev * mout) : option spec :=
  let sel id :=
    if negb (sp_closed sp) && has_id id ms
    then mkSp id (sp_closed sp) (sp_arr sp) (sp_dead sp) (sp_rx sp) (sp_tx sp) else sp in
  match eo with
  | (Select id, OSel id') => if id =? id' then Some (sel id) else None
  | (Nic _, OSel id) => Some (sel id)
  | (Tick, OSel id) => Some (sel id)
  | (Tick, OUnit) => Some sp
  | (Write bs, OWrite t ok) =>
      (* routed to the selected member; the caller sees that member's own verdict *)
      match spec_of t ms with
      | None => None
      | Some m =>
          if (t =? sp_cur sp) && Bool.eqb ok (negb (ms_wfail m) && negb (sp_closed sp))
          then Some (mkSp (sp_cur sp) (sp_closed sp) (sp_arr sp) (sp_dead sp) (sp_rx sp)
                          (if ok then sp_tx sp + N.of_nat (length bs) else sp_tx sp))
          else None
      end
  | (MemberRead i bs, OUnit) =>
      if has_id i ms && negb (memb i (sp_dead sp)) && negb (sp_closed sp)
      then Some (mkSp (sp_cur sp) (sp_closed sp) (sp_arr sp ++ [bs]) (sp_dead sp)
                      (sp_rx sp + N.of_nat (length bs)) (sp_tx sp))
      else Some sp
  | (MemberFail i, OUnit) =>
      Some (mkSp (sp_cur sp) (sp_closed sp) (sp_arr sp) (i :: sp_dead sp) (sp_rx sp) (sp_tx sp))
  | (Read _, ORead (Some bs)) =>
      (* exactly the oldest message not yet returned *)
      match sp_arr sp with
      | x :: rest => if list_N_eqb x bs
                     then Some (mkSp (sp_cur sp) (sp_closed sp) rest (sp_dead sp) (sp_rx sp) (sp_tx sp))
                     else None
      | [] => None
      end
  | (Read _, ORead None) => if sp_closed sp then Some sp else None
  | (Read _, OBlocked) => match sp_arr sp with [] => if sp_closed sp then None else Some sp | _ => None end
  | (Neg, ONeg t) => if t =? sp_cur sp then Some sp else None
  | (Unrel, OUnrel t ok) =>
      match spec_of t ms with
      | Some m => if (t =? sp_cur sp) && Bool.eqb ok (ms_unrel m) then Some sp else None
      | None => None
      end
  | (Counters, OCounters rx tx) => if (rx =? sp_rx sp) && (tx =? sp_tx sp) then Some sp else None
  | (Close _, OClose err) =>
      if Bool.eqb err (existsb ms_cerr ms)
      then Some (mkSp (sp_cur sp) true (sp_arr sp) (sp_dead sp) (sp_rx sp) (sp_tx sp))
      else None
  | _ => None                       (* includes OPanic and OBlocked anywhere else *)
  end.

Fixpoint spec_run (ms : list mspec) (sp : spec) (tr : list (mev * mout)) : option spec :=
  match tr with
  | [] => Some sp
  | eo :: tr' => match spec_step ms sp eo with
                 | None => None
                 | Some sp' => spec_run ms sp' tr'
                 end
  end.

(* what each member's log must be: the payloads of the writes that were routed to it and accepted *)
Definition expected_log (id : N) (tr : list (mev * mout)) : list (list N) :=
  concat (map (fun eo => match eo with
                         | (Write bs, OWrite t true) => if t =? id then [bs] else []
                         | _ => []
                         end) tr).
(* and the close calls it must have received: one per Close, with the status if it is a Closer *)
Definition expected_closes (closer : bool) (tr : list (mev * mout)) : list N :=
  concat (map (fun eo => match fst eo with Close s => [close_code closer s] | _ => [] end) tr).

Definition multi_ok (c : multi_case) : bool :=
  let ms := c_members (mc_cfg c) in
  let must_reject :=
    match ms with [] => true | _ => negb (has_id (c_initial (mc_cfg c)) ms) end in
  if negb (mc_new c =? 0) then true       (* rejected configurations cannot crash anything later *)
  else
    negb must_reject
    && Nat.eqb (length (mc_evs c)) (length (mc_outs c))
    && (let tr := combine (mc_evs c) (mc_outs c) in
        match spec_run ms (mkSp (c_initial (mc_cfg c)) false [] [] 0 0) tr with
        | None => false
        | Some _ =>
            logs_eqb (map (fun m => (ms_id m, expected_log (ms_id m) tr)) ms) (mc_logs c)
            && closes_eqb (map (fun m => (ms_id m, expected_closes (ms_closer m) tr)) ms) (mc_closes c)
        end).

(* judge flags: bit0 = correspondence broken, bit1 = property predicate false *)
Definition multi_judge (c : multi_case) : N :=
  (if multi_corr c then 0 else 1) + (if multi_ok c then 0 else 2).

(* Model of transport/websocket/transport.go (mode selection in New, Write/Read with the three
   encode/decode pairs, the sliding dictionaries writeWindowBuf/readWindowBuf and the byte
   counters) and of transport/negotiation.go CompressConfig / transport/compress Config.
   DEFLATE (compress/flate) is not modelled: it is a pair of section variables.
   Executable; no proofs here. *)
From Coq Require Import List NArith Bool.
From Iscp Require Import Lib.ListMap Lib.Bytes.
Import ListNotations.
Open Scope N_scope.

Definition two64 : N := 18446744073709551616.
Definition lenN {A} (l : list A) : N := N.of_nat (length l).
Definition add64 (a b : N) : N := (a + b) mod two64.

(* ---------- mode selection ---------- *)

(* NegotiationParams.Compress: "", "per-message", "context-takeover" *)
Inductive ctype := CNone | CPerMessage | CTakeover.

(* the negotiated parameters that matter here: comp, clevel, cwinbits (nil = None) *)
Record nparams := mkNP { np_comp : ctype; np_level : option N; np_bits : option N }.

(* compress.Config *)
Record cconfig := mkCC { cc_enable : bool; cc_level : N; cc_disable_ct : bool; cc_bits : N }.

(* NegotiationParams.CompressConfig(base) *)
Definition compress_config (p : nparams) (base : cconfig) : cconfig :=
  match np_level p with
  | None => mkCC false (cc_level base) (cc_disable_ct base) (cc_bits base)
  | Some l =>
      if l =? 0 then mkCC false (cc_level base) (cc_disable_ct base) (cc_bits base)
      else
        mkCC true l
             (match np_comp p with
              | CPerMessage => true
              | CTakeover => false
              | CNone => cc_disable_ct base
              end)
             (match np_bits p with Some b => b | None => cc_bits base end)
  end.

Inductive mode := MOff | MPerMsg | MTakeover.

(* the switch in websocket.New *)
Definition mode_of (c : cconfig) : mode :=
  if negb (cc_enable c) then MOff
  else if cc_disable_ct c then MPerMsg else MTakeover.

(* Config.WindowSize: 1 << WindowBits *)
Definition window_size (c : cconfig) : N := 2 ^ cc_bits c.

(* ---------- the sliding dictionary ---------- *)

(* if WindowSize() < buf.Len() { buf.Next(buf.Len() - WindowSize()) } *)
Definition trim (W : N) (w : list N) : list N :=
  if W <? lenN w then skipn (N.to_nat (lenN w - W)) w else w.

(* dictionary after a message has been written / read *)
Definition win_next (W : N) (w m : list N) : list N := trim W (w ++ m).

(* ---------- writer and reader ---------- *)

Section WS.
  (* flate.NewWriterDict(level, dict) . Write(m) . Close()  -- the compressed bytes *)
  Variable deflate : N -> list N -> list N -> list N.
  (* flate.NewReaderDict(dict) read to the end: (bytes produced, no error) *)
  Variable inflate : list N -> list N -> list N * bool.

  Record wstx := mkTx { tx_win : list N; tx_cnt : N }.
  Record wsrx := mkRx { rx_win : list N; rx_cnt : N }.
  Definition tx0 : wstx := mkTx [] 0.
  Definition rx0 : wsrx := mkRx [] 0.

  (* Transport.Write: the bytes of one WebSocket message, new state *)
  Definition ws_write (c : cconfig) (s : wstx) (m : list N) : wstx * list N :=
    match mode_of c with
    | MOff => (mkTx (tx_win s) (add64 (tx_cnt s) (lenN m)), m)
    | MPerMsg =>
        let wire := deflate (cc_level c) [] m in
        (mkTx (tx_win s) (add64 (tx_cnt s) (lenN wire)), wire)
    | MTakeover =>
        let wire := deflate (cc_level c) (tx_win s) m in
        (mkTx (win_next (window_size c) (tx_win s) m) (add64 (tx_cnt s) (lenN wire)), wire)
    end.

  (* Transport.Read on one WebSocket message: None = error.  On a decode error in takeover mode
     the partial output has already been teed into the dictionary and is not trimmed. *)
  Definition ws_read (c : cconfig) (s : wsrx) (wire : list N) : wsrx * option (list N) :=
    match mode_of c with
    | MOff => (mkRx (rx_win s) (add64 (rx_cnt s) (lenN wire)), Some wire)
    | MPerMsg =>
        let r := inflate [] wire in
        if snd r then (mkRx (rx_win s) (add64 (rx_cnt s) (lenN wire)), Some (fst r))
        else (s, None)
    | MTakeover =>
        let r := inflate (rx_win s) wire in
        if snd r
        then (mkRx (win_next (window_size c) (rx_win s) (fst r)) (add64 (rx_cnt s) (lenN wire)), Some (fst r))
        else (mkRx (rx_win s ++ fst r) (rx_cnt s), None)
    end.

  (* runs: wires produced / results returned, and the dictionary held BEFORE each message *)
  Fixpoint tx_run (c : cconfig) (s : wstx) (ms : list (list N)) : wstx * list (list N) :=
    match ms with
    | [] => (s, [])
    | m :: ms' =>
        let r := ws_write c s m in
        let r' := tx_run c (fst r) ms' in
        (fst r', snd r :: snd r')
    end.
  Fixpoint rx_run (c : cconfig) (s : wsrx) (ws : list (list N)) : wsrx * list (option (list N)) :=
    match ws with
    | [] => (s, [])
    | w :: ws' =>
        let r := ws_read c s w in
        let r' := rx_run c (fst r) ws' in
        (fst r', snd r :: snd r')
    end.
  Fixpoint tx_wins (c : cconfig) (s : wstx) (ms : list (list N)) : list (list N) :=
    match ms with
    | [] => []
    | m :: ms' => tx_win s :: tx_wins c (fst (ws_write c s m)) ms'
    end.
  Fixpoint rx_wins (c : cconfig) (s : wsrx) (ws : list (list N)) : list (list N) :=
    match ws with
    | [] => []
    | w :: ws' => rx_win s :: rx_wins c (fst (ws_read c s w)) ws'
    end.
End WS.

(* the dictionary after each message, without reference to DEFLATE (what the writer holds) *)
Fixpoint wins_after (c : cconfig) (w : list N) (ms : list (list N)) : list (list N) :=
  match ms with
  | [] => []
  | m :: ms' =>
      let w' := match mode_of c with MTakeover => win_next (window_size c) w m | _ => w end in
      w' :: wins_after c w' ms'
  end.

(* what a reader primed with the documented dictionary produces for each wire message, and the
   dictionary it holds afterwards, DEFLATE-free.  [leak] = the writer's DEFLATE put the
   dictionary in front of the message (finding F28: compress/flate NewWriterDict emits a stored
   block that starts at the beginning of its window); without leaks this is [wins_after]. *)
Fixpoint rd_follow (c : cconfig) (w : list N) (ms : list (list N * bool)) : list (list N * list N) :=
  match ms with
  | [] => []
  | ml :: ms' =>
      let out := if snd ml then w ++ fst ml else fst ml in
      let w' := match mode_of c with MTakeover => win_next (window_size c) w out | _ => w end in
      (out, w') :: rd_follow c w' ms'
  end.

(* ---------- compact message descriptions and digests (keep case terms small) ---------- *)

(* a message is a list of pieces expanded against the bytes written before it on the same
   writer (hist):  literal bytes; n pseudo-random bytes; n bytes copied from d bytes back *)
Inductive piece := PLit (bs : list N) | PRnd (seed n : N) | PBack (d n : N).

(* x' = (69069 x + 12345) mod 2^31; two bytes per step: bits 16..23, then bits 8..15 (masks and
   shifts: N.modulo is far too slow under vm_compute) *)
Fixpoint lcg_bytes (n : nat) (x : N) : list N :=
  match n with
  | O => []
  | S O => [N.land (N.shiftr (N.land (69069 * x + 12345) 2147483647) 16) 255]
  | S (S n') =>
      let x' := N.land (69069 * x + 12345) 2147483647 in
      N.land (N.shiftr x' 16) 255 :: N.land (N.shiftr x' 8) 255 :: lcg_bytes n' x'
  end.

Definition expand_piece (hist : list N) (p : piece) : list N :=
  match p with
  | PLit bs => bs
  | PRnd seed n => lcg_bytes (N.to_nat n) seed
  | PBack d n => firstn (N.to_nat n) (skipn (N.to_nat (lenN hist - d)) hist)
  end.

Fixpoint expand_msg (hist : list N) (ps : list piece) : list N :=
  match ps with
  | [] => []
  | p :: ps' => let b := expand_piece hist p in b ++ expand_msg (hist ++ b) ps'
  end.

Fixpoint expand_msgs (hist : list N) (ms : list (list piece)) : list (list N) :=
  match ms with
  | [] => []
  | ps :: ms' => let m := expand_msg hist ps in m :: expand_msgs (hist ++ m) ms'
  end.

(* observed byte strings: in full when short, else (length, digest) *)
Inductive obsb := OFull (bs : list N) | ODig (len dig : N).

(* h' = (257 h + b + 1) mod 2^61 *)
Definition digest (l : list N) : N :=
  fold_left (fun h b => N.land (257 * h + b + 1) 2305843009213693951) l 0.

Definition bytes_eqb := list_beq N N.eqb.
Definition obs_matches (o : obsb) (m : list N) : bool :=
  match o with
  | OFull bs => bytes_eqb bs m
  | ODig len dig => (len =? lenN m) && (dig =? digest m)
  end.
Definition obs_len (o : obsb) : N :=
  match o with OFull bs => lenN bs | ODig len _ => len end.

Definition opt_eqb {A B} (eq : A -> B -> bool) (a : option A) (b : option B) : bool :=
  match a, b with
  | None, None => true
  | Some x, Some y => eq x y
  | _, _ => false
  end.
Fixpoint list_eqb2 {A B} (eq : A -> B -> bool) (l1 : list A) (l2 : list B) : bool :=
  match l1, l2 with
  | [], [] => true
  | x :: l1', y :: l2' => eq x y && list_eqb2 eq l1' l2'
  | _, _ => false
  end.

(* ---------- the correspondence case ---------- *)

Record ws_case := mkWsCase {
  (* input *)
  wc_np : nparams;                          (* negotiated parameters given to websocket.New on both sides *)
  wc_base : cconfig;                        (* Config.CompressConfig given to websocket.New on both sides *)
  wc_writers : list (list (list piece));    (* per writer goroutine: its messages in write order *)
  wc_strict : bool;                         (* the in-memory Conn behaves like the coder/nhooyr backends on a
                                               fragmented message: io.EOF only on a Read after the last payload
                                               byte, and Reader() refuses (for good) while the previous message
                                               has not been read to io.EOF *)
  (* observation *)
  wc_order : list (option (N * N));         (* per WebSocket message on the wire, in wire order: the written
                                               message (writer, index) that the harness's independent decoder
                                               recovered from the wire bytes with the documented dictionary;
                                               None = the decoder failed or recovered something never written *)
  wc_leak : list bool;                      (* per WebSocket message: the independent decoder recovered
                                               dictionary ++ message instead of the message (F28) *)
  wc_wire : list obsb;                      (* the wire bytes of each message *)
  wc_dmode : N;                             (* mode the independent decoder derived: 0 off, 1 per-message, 2 takeover *)
  wc_dW : N;                                (* window size the independent decoder derived *)
  wc_dwin : list (N * N);                   (* the independent decoder's dictionary (length, digest) after each message *)
  wc_reads : list (option obsb);            (* peer Transport.Read results, None = error *)
  wc_werrs : N;                             (* number of Transport.Write calls that returned an error *)
  wc_tx : N; wc_rx : N                      (* writer's TxBytesCounterValue, reader's RxBytesCounterValue *)
}.

Definition mode_code (m : mode) : N := match m with MOff => 0 | MPerMsg => 1 | MTakeover => 2 end.

Definition case_msgs (c : ws_case) : list (list (list N)) := map (expand_msgs []) (wc_writers c).

(* the written message named by (writer, index) *)
Definition msg_at (ms : list (list (list N))) (wi : N * N) : option (list N) :=
  match nth_error ms (N.to_nat (fst wi)) with
  | Some w => nth_error w (N.to_nat (snd wi))
  | None => None
  end.

(* messages in wire order (entries the decoder could not attribute are dropped) *)
Definition wire_msgs (c : ws_case) : list (list N) :=
  let ms := case_msgs c in
  concat (map (fun o => match o with
                        | Some wi => match msg_at ms wi with Some m => [m] | None => [] end
                        | None => []
                        end) (wc_order c)).

(* the same with the leak flag of each *)
Definition wire_msgs_l (c : ws_case) : list (list N * bool) :=
  let ms := case_msgs c in
  concat (map (fun ol => match fst ol with
                         | Some wi => match msg_at ms wi with Some m => [(m, snd ol)] | None => [] end
                         | None => []
                         end) (combine (wc_order c) (wc_leak c))).

Definition all_some {A} (l : list (option A)) : bool :=
  forallb (fun o => match o with Some _ => true | None => false end) l.

(* order is an interleaving of the writers: for each writer its indices appear as 0,1,2,... and
   every written message appears *)
Fixpoint bump (w : nat) (nexts : list N) : list N :=
  match nexts, w with
  | [], _ => []
  | x :: l, O => (x + 1) :: l
  | x :: l, S w' => x :: bump w' l
  end.
Fixpoint order_ok (nexts : list N) (order : list (option (N * N))) : bool :=
  match order with
  | [] => true
  | None :: _ => false
  | Some wi :: order' =>
      (fst wi <? lenN nexts) && (snd wi =? nth (N.to_nat (fst wi)) nexts 0)
      && order_ok (bump (N.to_nat (fst wi)) nexts) order'
  end.
Definition order_complete (c : ws_case) : bool :=
  order_ok (map (fun _ => 0) (wc_writers c)) (wc_order c)
  && (lenN (wc_order c) =? fold_left (fun a w => a + lenN w) (wc_writers c) 0).

Definition sum_obs_len (l : list obsb) : N := fold_left (fun a o => a + obs_len o) l 0.

(* A Conn with the strict rule of coder/nhooyr (io.EOF only on a Read after the last payload byte;
   Reader() refused for good while the previous message was not read to io.EOF).
   [drains] = Transport.Read reads the message reader to io.EOF after decoding.
   - the FORMER Read (finding F29, drains = false): with compression on, decoding stopped at the
     end of the DEFLATE stream, so every Reader() after the first message was refused;
   - Read AS IT IS NOW (fix 1ebe65c, drains = true): io.Copy(io.Discard, rd) after decodeFrom,
     the rule has no effect.  Without compression the message was always read to EOF. *)
Definition conn_rule_gen (drains strict : bool) (m : mode) (reads : list (option (list N))) : list (option (list N)) :=
  match strict && negb drains, m, reads with
  | true, MPerMsg, r :: rest | true, MTakeover, r :: rest => r :: map (fun _ => None) rest
  | _, _, _ => reads
  end.
(* the code as it is now *)
Definition read_drains_to_eof : bool := true.
Definition conn_rule := conn_rule_gen read_drains_to_eof.

(* correspondence: what the model predicts vs what was observed *)
Definition ws_corr (c : ws_case) : bool :=
  let cfg := compress_config (wc_np c) (wc_base c) in
  let ms := wire_msgs c in
  let rd := rd_follow cfg [] (wire_msgs_l c) in
  (* the independent decoder runs in the mode and with the window the model derives *)
  (wc_dmode c =? mode_code (mode_of cfg))
  && (match mode_of cfg with MTakeover => wc_dW c =? window_size cfg | _ => true end)
  && (lenN (wc_leak c) =? lenN (wc_order c))
  (* its dictionary after every message is the model reader's dictionary *)
  && (if all_some (wc_order c)
      then list_eqb2 (fun w ld => (lenN w =? fst ld) && (digest w =? snd ld)) (map snd rd) (wc_dwin c)
      else true)
  (* compression off: the wire bytes are the message *)
  && (match mode_of cfg with
      | MOff => list_eqb2 obs_matches (wc_wire c) ms
      | _ => true
      end)
  (* the model's reader returns the written messages (under inflate_deflate; with the
     dictionary in front where DEFLATE was observed to violate it) *)
  && list_eqb2 (opt_eqb obs_matches) (wc_reads c) (conn_rule (wc_strict c) (mode_of cfg) (map (fun x => Some (fst x)) rd))
  (* counters follow the wire lengths *)
  && (wc_tx c =? fold_left (fun a o => add64 a (obs_len o)) (wc_wire c) 0).

(* the property predicate, on the observation only *)
Definition ws_ok (c : ws_case) : bool :=
  (* every message on the wire is decodable by the independent decoder with the documented
     dictionary, into a written message; per-writer order kept; nothing lost or duplicated *)
  order_complete c
  && forallb negb (wc_leak c)
  && (lenN (wc_wire c) =? lenN (wc_order c))
  && (wc_werrs c =? 0)
  (* the peer reads the same messages, byte for byte, same order, one per call *)
  && list_eqb2 (opt_eqb obs_matches) (wc_reads c) (map Some (wire_msgs c))
  (* byte counters equal the bytes actually put on / taken off the wire *)
  && (wc_tx c =? sum_obs_len (wc_wire c) mod two64)
  && (wc_rx c =? sum_obs_len (wc_wire c) mod two64).

Definition ws_judge (c : ws_case) : N :=
  (if ws_corr c then 0 else 1) + (if ws_ok c then 0 else 2).

(* Model of the negotiation-parameter code:
     transport/negotiation.go        NegotiationParams, Validate, CompressConfig,
                                     MarshalKeyValues / UnmarshalKeyValues (encoding/json struct tags)
     transport/quic/negotiation.go   Marshal / Unmarshal / readKeyValues (length-prefixed binary form)
     transport/websocket/negotiation.go, transport/webtransport/negotiation.go  (URL values)
     transport/dialer.go             DialConfig.NegotiationParams
     transport/compress/compress.go  Config, Config.Type
   Strings are lists of byte values (N in 0..255).  Go ints are Z (the machine range is a
   hypothesis of the theorems, never silently assumed here).  Go maps are lists of pairs with
   distinct keys; where Go's iteration order is visible (the binary form) the order is the
   order of the list.  encoding/json is modelled only as far as this struct uses it; the
   quirks mirrored are listed at [kv_step].  Executable; no proofs here. *)
From Coq Require Import String Ascii List NArith ZArith Bool.
From Iscp Require Import Lib.ListMap Lib.Bytes Lib.Decimal.
Import ListNotations.
Open Scope N_scope.

Definition bytes := list N.
Definition s2b (s : string) : bytes := map N_of_ascii (list_ascii_of_string s).
Definition bl (l : list N) : bytes := l.
Definition bytes_eqb : bytes -> bytes -> bool := list_beq N N.eqb.
Definition is_nil {A} (l : list A) : bool := match l with [] => true | _ => false end.

(* ---------- UTF-8 as Go's unicode/utf8 decodes it ---------- *)

Definition cont (b : N) : bool := (128 <=? b) && (b <=? 191).
Definition is2 (b0 b1 : N) : bool := (194 <=? b0) && (b0 <=? 223) && cont b1.
Definition is3 (b0 b1 b2 : N) : bool :=
  ((b0 =? 224) && (160 <=? b1) && (b1 <=? 191) && cont b2)
  || ((((225 <=? b0) && (b0 <=? 236)) || (b0 =? 238) || (b0 =? 239)) && cont b1 && cont b2)
  || ((b0 =? 237) && (128 <=? b1) && (b1 <=? 159) && cont b2).
Definition is4 (b0 b1 b2 b3 : N) : bool :=
  ((b0 =? 240) && (144 <=? b1) && (b1 <=? 191) && cont b2 && cont b3)
  || ((241 <=? b0) && (b0 <=? 243) && cont b1 && cont b2 && cont b3)
  || ((b0 =? 244) && (128 <=? b1) && (b1 <=? 143) && cont b2 && cont b3).

(* utf8.Valid *)
Fixpoint utf8_valid (l : bytes) : bool :=
  match l with
  | [] => true
  | b0 :: r0 =>
      if b0 <? 128 then utf8_valid r0 else
      match r0 with
      | [] => false
      | b1 :: r1 =>
          if is2 b0 b1 then utf8_valid r1 else
          match r1 with
          | [] => false
          | b2 :: r2 =>
              if is3 b0 b1 b2 then utf8_valid r2 else
              match r2 with
              | [] => false
              | b3 :: r3 => if is4 b0 b1 b2 b3 then utf8_valid r3 else false
              end
          end
      end
  end.

(* What a string becomes when encoding/json writes it and reads it back: every byte that
   does not start a valid encoded rune is replaced by U+FFFD (EF BF BD), one byte at a time;
   all escaping (quotes, control characters, <, >, &, U+2028/9) is undone by the reader. *)
Definition repl : bytes := [239; 191; 189].
Fixpoint sanitize (l : bytes) : bytes :=
  match l with
  | [] => []
  | b0 :: r0 =>
      if b0 <? 128 then b0 :: sanitize r0 else
      match r0 with
      | [] => repl ++ sanitize r0
      | b1 :: r1 =>
          if is2 b0 b1 then b0 :: b1 :: sanitize r1 else
          match r1 with
          | [] => repl ++ sanitize r0
          | b2 :: r2 =>
              if is3 b0 b1 b2 then b0 :: b1 :: b2 :: sanitize r2 else
              match r2 with
              | [] => repl ++ sanitize r0
              | b3 :: r3 =>
                  if is4 b0 b1 b2 b3 then b0 :: b1 :: b2 :: b3 :: sanitize r3
                  else repl ++ sanitize r0
              end
          end
      end
  end.

(* ---------- signed decimal integers: strconv.AppendInt / what literalStore accepts ---------- *)

Definition print_int (z : Z) : bytes :=
  if (z <? 0)%Z then 45 :: dec_print (Z.abs_N z) else dec_print (Z.to_N z).

Definition int64_min : Z := (-9223372036854775808)%Z.
Definition int64_max : Z := 9223372036854775807%Z.
Definition in_int64 (z : Z) : bool := (int64_min <=? z)%Z && (z <=? int64_max)%Z.

(* literalStore(fromQuoted) on an int: first byte must be '-' or a digit, then
   strconv.ParseInt(s, 10, 64): optional sign, one or more digits, range of int64. *)
Definition parse_int (b : bytes) : option Z :=
  match b with
  | [] => None
  | c :: r =>
      if c =? 45 then
        match dec_parse r with
        | Some n => if (int64_min <=? - Z.of_N n)%Z then Some (- Z.of_N n)%Z else None
        | None => None
        end
      else
        match dec_parse b with
        | Some n => if (Z.of_N n <=? int64_max)%Z then Some (Z.of_N n) else None
        | None => None
        end
  end.

(* ---------- the parameter record ---------- *)

Record params := mkP {
  p_enc : bytes;            (* Encoding            json:"enc,omitempty" *)
  p_comp : bytes;           (* Compress            json:"comp,omitempty" *)
  p_level : option Z;       (* CompressLevel *int  json:"clevel,string,omitempty" *)
  p_bits : option Z;        (* CompressWindowBits  json:"cwinbits,string,omitempty" *)
  p_tid : bytes;            (* TransportID         json:"tid,omitempty" *)
  p_reconnect : bool;       (* Reconnect           json:"reconnect,omitempty" *)
  p_tgid : bytes;           (* TransportGroupID    json:"tgid,omitempty" *)
  p_tgcount : Z;            (* ...TotalCount int   json:"tgcount,string,omitempty" *)
  p_tgidx : Z               (* ...Index int        json:"tgidx,string,omitempty" *)
}.
Definition p0 : params := mkP [] [] None None [] false [] 0 0.

Definition k_enc : bytes := Eval compute in s2b "enc".
Definition k_comp : bytes := Eval compute in s2b "comp".
Definition k_clevel : bytes := Eval compute in s2b "clevel".
Definition k_cwinbits : bytes := Eval compute in s2b "cwinbits".
Definition k_tid : bytes := Eval compute in s2b "tid".
Definition k_reconnect : bytes := Eval compute in s2b "reconnect".
Definition k_tgid : bytes := Eval compute in s2b "tgid".
Definition k_tgcount : bytes := Eval compute in s2b "tgcount".
Definition k_tgidx : bytes := Eval compute in s2b "tgidx".
Definition b_true : bytes := Eval compute in s2b "true".
Definition b_false : bytes := Eval compute in s2b "false".
Definition b_null : bytes := Eval compute in s2b "null".
Definition enc_json : bytes := Eval compute in s2b "json".
Definition enc_proto : bytes := Eval compute in s2b "proto".
Definition comp_pm : bytes := Eval compute in s2b "per-message".
Definition comp_cto : bytes := Eval compute in s2b "context-takeover".

(* ---------- Validate ---------- *)

Definition check_bits (p : params) : option params :=
  match p_bits p with
  | Some w => if (w <? 0)%Z || (32 <? w)%Z then None else Some p
  | None => Some p
  end.

Definition set_level (p : params) (l : option Z) : params :=
  mkP (p_enc p) (p_comp p) l (p_bits p) (p_tid p) (p_reconnect p) (p_tgid p) (p_tgcount p) (p_tgidx p).

(* validateUTF8: enc, comp, tid, tgid must be valid UTF-8 (called first by Validate and by
   MarshalKeyValues) *)
Definition text_utf8 (p : params) : bool :=
  utf8_valid (p_enc p) && utf8_valid (p_comp p) && utf8_valid (p_tid p) && utf8_valid (p_tgid p).

Definition level_out (p : params) : bool :=
  match p_level p with Some l => (l <? 0)%Z || (9 <? l)%Z | None => false end.
Definition bits_out (p : params) : bool :=
  match p_bits p with Some w => (w <? 0)%Z || (32 <? w)%Z | None => false end.

(* Validate AS IT IS NOW (fixes 20ec58b of F27 and 1a00ab3 of F26): UTF-8 first, then the encoding,
   then level and window bits whenever present - whether or not a type is named -, then the type;
   the default level is filled in only when a type is named.
   None = error; Some p' = nil, with the receiver as Validate leaves it. *)
Definition validate (p : params) : option params :=
  if negb (text_utf8 p) then None
  else if negb (is_nil (p_enc p) || bytes_eqb (p_enc p) enc_json || bytes_eqb (p_enc p) enc_proto) then None
  else if level_out p then None
  else if bits_out p then None
  else if is_nil (p_comp p) then Some p
  else if bytes_eqb (p_comp p) comp_pm || bytes_eqb (p_comp p) comp_cto then
    match p_level p with
    | Some _ => Some p
    | None => Some (set_level p (Some 6%Z))
    end
  else None.

(* the FORMER Validate (before those fixes): no look at the text; level and window bits looked at
   only under a named type.  Kept only for the lemmas that record findings F26 and F27. *)
Definition validate_former (p : params) : option params :=
  if negb (is_nil (p_enc p) || bytes_eqb (p_enc p) enc_json || bytes_eqb (p_enc p) enc_proto) then None
  else if is_nil (p_comp p) then Some p
  else if bytes_eqb (p_comp p) comp_pm || bytes_eqb (p_comp p) comp_cto then
    match p_level p with
    | Some l => if (l <? 0)%Z || (9 <? l)%Z then None else check_bits p
    | None => check_bits (set_level p (Some 6%Z))
    end
  else None.

(* ---------- compress.Config and CompressConfig ---------- *)

Record cconfig := mkC { c_enable : bool; c_level : Z; c_dct : bool; c_bits : Z }.

Definition ctype (c : cconfig) : bytes := if c_dct c then comp_pm else comp_cto.

Definition compress_config (p : params) (base : cconfig) : cconfig :=
  match p_level p with
  | None => mkC false (c_level base) (c_dct base) (c_bits base)
  | Some l =>
      if (l =? 0)%Z then mkC false (c_level base) (c_dct base) (c_bits base)
      else
        let bits := match p_bits p with Some w => w | None => c_bits base end in
        let dct := if bytes_eqb (p_comp p) comp_pm then true
                   else if bytes_eqb (p_comp p) comp_cto then false
                   else c_dct base in
        mkC true l dct bits
  end.

(* what the transports act on: "when Enable is false all other settings are ignored" *)
Inductive eff := Disabled | Enabled (dct : bool) (level bits : Z).
Definition effective (c : cconfig) : eff :=
  if c_enable c then Enabled (c_dct c) (c_level c) (c_bits c) else Disabled.

(* ---------- DialConfig.NegotiationParams ---------- *)

Record dial_config := mkDC {
  dc_comp : cconfig; dc_enc : bytes; dc_tid : bytes; dc_reconnect : bool;
  dc_tgid : bytes; dc_tgcount : Z; dc_tgidx : Z }.

Definition dial_params (c : dial_config) : params :=
  mkP (dc_enc c) (ctype (dc_comp c)) (Some (c_level (dc_comp c))) (Some (c_bits (dc_comp c)))
      (dc_tid c) (dc_reconnect c) (dc_tgid c) (dc_tgcount c) (dc_tgidx c).

(* ---------- MarshalKeyValues ---------- *)

Definition kvs := list (bytes * bytes).

(* json.Marshal of the struct (omitempty: "" / nil pointer / false / 0 are left out; numbers
   quoted by ,string), json.Unmarshal into map[string]any, fmt.Sprintf("%v") of each value.
   Listed in struct order; the Go result is a map. *)
(* [kv_pairs]: the pairs; [marshal_kv] below: MarshalKeyValues as it is now, which first refuses
   text that is not UTF-8 (for UTF-8 text [sanitize] is the identity). *)
Definition kv_pairs (p : params) : kvs :=
  (if is_nil (p_enc p) then [] else [(k_enc, sanitize (p_enc p))]) ++
  (if is_nil (p_comp p) then [] else [(k_comp, sanitize (p_comp p))]) ++
  (match p_level p with None => [] | Some z => [(k_clevel, print_int z)] end) ++
  (match p_bits p with None => [] | Some z => [(k_cwinbits, print_int z)] end) ++
  (if is_nil (p_tid p) then [] else [(k_tid, sanitize (p_tid p))]) ++
  (if p_reconnect p then [(k_reconnect, b_true)] else []) ++
  (if is_nil (p_tgid p) then [] else [(k_tgid, sanitize (p_tgid p))]) ++
  (if (p_tgcount p =? 0)%Z then [] else [(k_tgcount, print_int (p_tgcount p))]) ++
  (if (p_tgidx p =? 0)%Z then [] else [(k_tgidx, print_int (p_tgidx p))]).

(* MarshalKeyValues AS IT IS NOW: None = error *)
Definition marshal_kv (p : params) : option kvs := if text_utf8 p then Some (kv_pairs p) else None.
(* the FORMER MarshalKeyValues never failed (non-UTF-8 bytes became U+FFFD): finding F26 *)
Definition marshal_kv_former (p : params) : kvs := kv_pairs p.

(* ---------- UnmarshalKeyValues ---------- *)

(* byte-wise lexicographic order (strings.Compare): json.Marshal writes map keys sorted *)
Fixpoint bytes_leb (a b : bytes) : bool :=
  match a, b with
  | [], _ => true
  | _ :: _, [] => false
  | x :: a', y :: b' => if x <? y then true else if y <? x then false else bytes_leb a' b'
  end.

Fixpoint insert_by {V} (kv : bytes * V) (l : list (bytes * V)) : list (bytes * V) :=
  match l with
  | [] => [kv]
  | h :: t => if bytes_leb (fst kv) (fst h) then kv :: l else h :: insert_by kv t
  end.
Definition sort_by {V} (l : list (bytes * V)) : list (bytes * V) := fold_right insert_by [] l.
Definition sort_kv : kvs -> kvs := sort_by.

Inductive field := FEnc | FComp | FLevel | FBits | FTid | FReconnect | FTgid | FTgcount | FTgidx.

Definition field_names : list (bytes * field) :=
  [(k_enc, FEnc); (k_comp, FComp); (k_clevel, FLevel); (k_cwinbits, FBits); (k_tid, FTid);
   (k_reconnect, FReconnect); (k_tgid, FTgid); (k_tgcount, FTgcount); (k_tgidx, FTgidx)].

(* encoding/json foldName: ASCII letters to upper case; every other rune to the smallest
   member of its simple-fold orbit - the only two that reach ASCII are U+017F (long s) -> 'S'
   and U+212A (Kelvin) -> 'K'; all others stay outside ASCII and are kept as they are. *)
Fixpoint fold_name (b : bytes) : bytes :=
  match b with
  | [] => []
  | c :: r =>
      if (97 <=? c) && (c <=? 122) then (c - 32) :: fold_name r
      else
        match r with
        | [] => [c]
        | c1 :: r1 =>
            if (c =? 197) && (c1 =? 191) then 83 :: fold_name r1
            else
              match r1 with
              | [] => c :: fold_name r
              | c2 :: r2 =>
                  if (c =? 226) && (c1 =? 132) && (c2 =? 170) then 75 :: fold_name r2
                  else c :: fold_name r
              end
        end
  end.

(* field for a JSON object key: exact name first, else equal after folding; bool = exact *)
Definition field_of_key (k : bytes) : option (field * bool) :=
  match find (fun nf => bytes_eqb (fst nf) k) field_names with
  | Some nf => Some (snd nf, true)
  | None =>
      match find (fun nf => bytes_eqb (fold_name (fst nf)) (fold_name k)) field_names with
      | Some nf => Some (snd nf, false)
      | None => None
      end
  end.

Definition upd_enc p v := mkP v (p_comp p) (p_level p) (p_bits p) (p_tid p) (p_reconnect p) (p_tgid p) (p_tgcount p) (p_tgidx p).
Definition upd_comp p v := mkP (p_enc p) v (p_level p) (p_bits p) (p_tid p) (p_reconnect p) (p_tgid p) (p_tgcount p) (p_tgidx p).
Definition upd_level p v := set_level p v.
Definition upd_bits p v := mkP (p_enc p) (p_comp p) (p_level p) v (p_tid p) (p_reconnect p) (p_tgid p) (p_tgcount p) (p_tgidx p).
Definition upd_tid p v := mkP (p_enc p) (p_comp p) (p_level p) (p_bits p) v (p_reconnect p) (p_tgid p) (p_tgcount p) (p_tgidx p).
Definition upd_reconnect p v := mkP (p_enc p) (p_comp p) (p_level p) (p_bits p) (p_tid p) v (p_tgid p) (p_tgcount p) (p_tgidx p).
Definition upd_tgid p v := mkP (p_enc p) (p_comp p) (p_level p) (p_bits p) (p_tid p) (p_reconnect p) v (p_tgcount p) (p_tgidx p).
Definition upd_tgcount p v := mkP (p_enc p) (p_comp p) (p_level p) (p_bits p) (p_tid p) (p_reconnect p) (p_tgid p) v (p_tgidx p).
Definition upd_tgidx p v := mkP (p_enc p) (p_comp p) (p_level p) (p_bits p) (p_tid p) (p_reconnect p) (p_tgid p) (p_tgcount p) v.

(* a ,string *int field: the text "null" makes the pointer nil; otherwise a decimal int64 *)
Definition store_ptr (v : bytes) : option (option Z) :=
  if bytes_eqb v b_null then Some None
  else match parse_int v with Some z => Some (Some z) | None => None end.
(* a ,string int field: the text "null" leaves the field as it is *)
Definition store_int (old : Z) (v : bytes) : option Z :=
  if bytes_eqb v b_null then Some old else parse_int v.

Definition parse_bool (v : bytes) : option bool :=
  if bytes_eqb v b_true then Some true else if bytes_eqb v b_false then Some false else None.

(* One member of the JSON object written from the intermediate map, read into the struct.
   Key and value have been through the JSON writer and reader ([sanitize]).  Mirrored:
   - unknown keys are skipped; names match exactly or case-insensitively (fold_name);
   - the value is a JSON bool only when the map key was exactly "reconnect" (then it is the
     exact match of the bool field); any other key that folds to "reconnect" carries a JSON
     string, which a bool field refuses;
   - ,string numbers: see store_ptr / store_int; everything else (empty, '+', spaces,
     exponent, quotes, out of int64) is an error;
   - every error makes Unmarshal return an error (immediately or as the saved first error). *)
Definition store_field (f : field) (exact : bool) (p : params) (v : bytes) : option params :=
  match f with
  | FEnc => Some (upd_enc p v)
  | FComp => Some (upd_comp p v)
  | FTid => Some (upd_tid p v)
  | FTgid => Some (upd_tgid p v)
  | FLevel => option_map (upd_level p) (store_ptr v)
  | FBits => option_map (upd_bits p) (store_ptr v)
  | FTgcount => option_map (upd_tgcount p) (store_int (p_tgcount p) v)
  | FTgidx => option_map (upd_tgidx p) (store_int (p_tgidx p) v)
  | FReconnect => if exact then option_map (upd_reconnect p) (parse_bool v) else None
  end.

Definition kv_step (st : option params) (kv : bytes * bytes) : option params :=
  match st with
  | None => None
  | Some p =>
      match field_of_key (sanitize (fst kv)) with
      | None => Some p
      | Some (f, exact) => store_field f exact p (sanitize (snd kv))
      end
  end.

(* the pre-pass over the map: the key "reconnect" must carry "true" or "false" *)
Definition bad_reconnect (kv : bytes * bytes) : bool :=
  bytes_eqb (fst kv) k_reconnect && negb (bytes_eqb (snd kv) b_true || bytes_eqb (snd kv) b_false).

(* the FORMER UnmarshalKeyValues (no UTF-8 check: finding F26); None = error *)
Definition unmarshal_kv_into_former (init : params) (l : kvs) : option params :=
  if existsb bad_reconnect l then None
  else fold_left kv_step (sort_kv l) (Some init).
(* UnmarshalKeyValues AS IT IS NOW, into an existing receiver: any key or value that is not
   UTF-8 is an error, before anything else *)
Definition kv_text_ok (l : kvs) : bool := forallb (fun kv => utf8_valid (fst kv) && utf8_valid (snd kv)) l.
Definition unmarshal_kv_into (init : params) (l : kvs) : option params :=
  if negb (kv_text_ok l) then None else unmarshal_kv_into_former init l.
Definition unmarshal_kv (l : kvs) : option params := unmarshal_kv_into p0 l.

(* ---------- URL values (websocket and webtransport are the same text) ---------- *)

Definition url_values := list (bytes * list bytes).

Definition url_of_kv (l : kvs) : url_values := map (fun kv => (fst kv, [snd kv])) l.
Definition marshal_url (p : params) : option url_values := option_map url_of_kv (marshal_kv p).

Definition url_entry (e : bytes * list bytes) : option (bytes * bytes) :=
  if is_nil (fst e) then None
  else match snd e with [v] => Some (fst e, v) | _ => None end.

Fixpoint url_to_kv (vals : url_values) : option kvs :=
  match vals with
  | [] => Some []
  | e :: vals' =>
      match url_entry e, url_to_kv vals' with
      | Some kv, Some l => Some (kv :: l)
      | _, _ => None
      end
  end.

Definition unmarshal_url_into (init : params) (vals : url_values) : option params :=
  match url_to_kv vals with
  | None => None
  | Some l => unmarshal_kv_into init l
  end.
Definition unmarshal_url := unmarshal_url_into p0.

(* ---------- QUIC binary form ---------- *)

Definition len16 (b : bytes) : bytes := be16 (N.of_nat (length b)).   (* uint16(len(b)): wraps *)
Definition frame (kv : bytes * bytes) : bytes :=
  len16 (fst kv) ++ fst kv ++ len16 (snd kv) ++ snd kv.
(* the framing of a list of pairs (lengths wrap at 16 bits, as uint16(len) does) *)
Definition frames (l : kvs) : bytes := concat (map frame l).

(* quic Marshal AS IT IS NOW: MarshalKeyValues (error passed on), then the pairs written in the
   order given (Go: map iteration order); an error (None) when a key or a value does not fit the
   16-bit length prefix (fix d2e00d7 of F25) *)
Definition fits16 (kv : bytes * bytes) : bool :=
  (N.of_nat (length (fst kv)) <? 65536) && (N.of_nat (length (snd kv)) <? 65536).
Definition marshal_bin_checked (order : kvs -> kvs) (p : params) : option bytes :=
  match marshal_kv p with
  | None => None
  | Some kv => let l := order kv in if forallb fits16 l then Some (frames l) else None
  end.
Definition marshal_bin := marshal_bin_checked.

(* the FORMER writer (before the fixes): no check at all, uint16(len) wraps.  Kept only for the
   lemma that records finding F25. *)
Definition marshal_bin_former (order : kvs -> kvs) (p : params) : bytes := frames (order (kv_pairs p)).

Definition has_key (k : bytes) (l : kvs) : bool := existsb (fun kv => bytes_eqb (fst kv) k) l.

(* readKeyValues; fuel = number of loop iterations allowed (each consumes >= 5 bytes);
   None = error (also when out of fuel, which [read_bin] never is) *)
Fixpoint read_loop (fuel : nat) (b : bytes) (acc : kvs) : option kvs :=
  match fuel with
  | O => None
  | S fuel' =>
      match b with
      | [] => Some acc                                   (* io.EOF on the first length read *)
      | [_] => None                                      (* unexpected EOF in the length *)
      | h :: l :: r =>
          let klen := rd16 h l in
          if klen =? 0 then None                         (* empty key name *)
          else
            let key := firstn (N.to_nat klen) r in
            if N.of_nat (length key) <? klen then None   (* short key *)
            else if negb (utf8_valid key) then None
            else
              match skipn (N.to_nat klen) r with
              | h2 :: l2 :: r2 =>
                  let vlen := rd16 h2 l2 in
                  let val := firstn (N.to_nat vlen) r2 in
                  if N.of_nat (length val) <? vlen then None    (* short value *)
                  else if negb (utf8_valid val) then None
                  else if has_key key acc then None             (* duplicated key *)
                  else read_loop fuel' (skipn (N.to_nat vlen) r2) (acc ++ [(key, val)])
              | _ => None                                (* EOF / short value length *)
              end
      end
  end.
Definition read_bin (b : bytes) : option kvs := read_loop (S (length b)) b [].

Definition unmarshal_bin_into (init : params) (b : bytes) : option params :=
  match read_bin b with
  | None => None
  | Some l => unmarshal_kv_into init l
  end.
Definition unmarshal_bin := unmarshal_bin_into p0.

(* =====================================================================================
   Correspondence cases and the property predicate
   ===================================================================================== *)

Definition Z_opt_eqb (a b : option Z) : bool :=
  match a, b with Some x, Some y => (x =? y)%Z | None, None => true | _, _ => false end.
Definition params_eqb (a b : params) : bool :=
  bytes_eqb (p_enc a) (p_enc b) && bytes_eqb (p_comp a) (p_comp b)
  && Z_opt_eqb (p_level a) (p_level b) && Z_opt_eqb (p_bits a) (p_bits b)
  && bytes_eqb (p_tid a) (p_tid b) && Bool.eqb (p_reconnect a) (p_reconnect b)
  && bytes_eqb (p_tgid a) (p_tgid b) && (p_tgcount a =? p_tgcount b)%Z && (p_tgidx a =? p_tgidx b)%Z.
Definition opt_eqb {A} (eq : A -> A -> bool) (a b : option A) : bool :=
  match a, b with Some x, Some y => eq x y | None, None => true | _, _ => false end.
Definition oparams_eqb := opt_eqb params_eqb.
Definition cconfig_eqb (a b : cconfig) : bool :=
  Bool.eqb (c_enable a) (c_enable b) && (c_level a =? c_level b)%Z
  && Bool.eqb (c_dct a) (c_dct b) && (c_bits a =? c_bits b)%Z.
Definition eff_eqb (a b : eff) : bool :=
  match a, b with
  | Disabled, Disabled => true
  | Enabled d l w, Enabled d' l' w' => Bool.eqb d d' && (l =? l')%Z && (w =? w')%Z
  | _, _ => false
  end.
Definition kv_eqb (a b : bytes * bytes) : bool := bytes_eqb (fst a) (fst b) && bytes_eqb (snd a) (snd b).
Definition kvs_eqb : kvs -> kvs -> bool := list_beq _ kv_eqb.
Definition url_eqb : url_values -> url_values -> bool :=
  list_beq _ (fun a b => bytes_eqb (fst a) (fst b) && list_beq _ bytes_eqb (snd a) (snd b)).

(* cut a byte string into length-prefixed pairs, no checks at all (None = does not divide) *)
Fixpoint split_frames (fuel : nat) (b : bytes) : option kvs :=
  match fuel with
  | O => None
  | S fuel' =>
      match b with
      | [] => Some []
      | [_] => None
      | h :: l :: r =>
          let klen := N.to_nat (rd16 h l) in
          if (length r <? klen)%nat then None else
          match skipn klen r with
          | h2 :: l2 :: r2 =>
              let vlen := N.to_nat (rd16 h2 l2) in
              if (length r2 <? vlen)%nat then None else
              match split_frames fuel' (skipn vlen r2) with
              | Some rest => Some ((firstn klen r, firstn vlen r2) :: rest)
              | None => None
              end
          | _ => None
          end
      end
  end.
Definition frames_of (b : bytes) : option kvs := split_frames (S (length b)) b.

(* ----- programs over several parameter sets: VALUE semantics -----
   The model has no pointers and no package state: a program is a fold over an environment of
   values.  On the Go side CompressLevel / CompressWindowBits are *int and the readers decode
   into an existing struct in place; that one set's Validate / Unmarshal can never be seen through
   another set, nor influence a later Validate, is tied by running such programs on the real types. *)
Inductive pstep :=
| PSet (i : N) (p : params)             (* slot i := a fresh struct literal *)
| PValidate (i : N)                     (* slot i .Validate() *)
| PKV (i : N) (l : kvs)                 (* slot i .UnmarshalKeyValues(map) *)
| PURLws (i : N) (vals : url_values)    (* websocket wrapper around slot i .UnmarshalURLValues *)
| PURLwt (i : N) (vals : url_values)    (* webtransport wrapper *)
| PBin (i : N) (b : bytes)              (* quic wrapper around slot i .Unmarshal *)
| PConfig (i : N) (base : cconfig).     (* slot i .CompressConfig(base) *)

Definition pstep_slot (st : pstep) : N :=
  match st with PSet i _ | PValidate i | PKV i _ | PURLws i _ | PURLwt i _ | PBin i _ | PConfig i _ => i end.

(* what is observed after each step: did the call succeed, the derived config (PConfig only), and
   EVERY slot as it is now (pointer fields dereferenced) *)
Record pobs := mkPO { po_ok : bool; po_cfg : option cconfig; po_env : list params }.

Definition env_get (i : N) (env : list params) : params := nth (N.to_nat i) env p0.
Fixpoint env_set_nat (i : nat) (v : params) (env : list params) : list params :=
  match env, i with
  | [], _ => []
  | _ :: e, O => v :: e
  | x :: e, S i' => x :: env_set_nat i' v e
  end.
Definition env_set (i : N) (v : params) (env : list params) : list params := env_set_nat (N.to_nat i) v env.

(* a reader that fails leaves a partly written struct; the harness then resets the slot to the
   zero value, and so does the model *)
Definition read_into (i : N) (r : option params) (env : list params) : list params * (bool * option cconfig) :=
  match r with
  | Some p' => (env_set i p' env, (true, None))
  | None => (env_set i p0 env, (false, None))
  end.

Definition prog_step (env : list params) (st : pstep) : list params * (bool * option cconfig) :=
  match st with
  | PSet i p => (env_set i p env, (true, None))
  | PValidate i =>
      match validate (env_get i env) with
      | Some p' => (env_set i p' env, (true, None))
      | None => (env, (false, None))
      end
  | PKV i l => read_into i (unmarshal_kv_into (env_get i env) l) env
  | PURLws i vals | PURLwt i vals => read_into i (unmarshal_url_into (env_get i env) vals) env
  | PBin i b => read_into i (unmarshal_bin_into (env_get i env) b) env
  | PConfig i base => (env, (true, Some (compress_config (env_get i env) base)))
  end.

Inductive neg_input :=
| InParams (p : params) (b1 b2 : cconfig)   (* a parameter set and two local base configs *)
| InKV (init : params) (l : kvs)            (* an arbitrary key/value map read into [init] *)
| InURL (vals : url_values)                 (* arbitrary URL values *)
| InBin (b : bytes)                         (* arbitrary bytes for the binary reader *)
| InDial (dc : dial_config)                 (* a dial configuration *)
| InProg (nslots : N) (steps : list pstep).  (* a short program over nslots NegotiationParams values (all zero at first) *)

Inductive neg_obs :=
| ObsParams
    (vld : option params)                   (* Validate on a copy: None = error, Some = receiver afterwards *)
    (kv : kvs)                              (* MarshalKeyValues, sorted by key *)
    (url_ws url_wt : url_values)            (* MarshalURLValues of both packages, sorted by key *)
    (bin : bytes)                           (* quic Marshal, bytes as emitted (Go map order) *)
    (rt_kv rt_ws rt_wt rt_bin : option params)   (* the matching Unmarshal* of the above (URL through Encode/ParseQuery) *)
    (perm_bin : bytes) (rt_perm : option params) (* the pairs re-framed by the harness in a chosen order, and quic Unmarshal of that *)
    (cfg1 cfg2 : cconfig)                   (* CompressConfig(b1), CompressConfig(b2) *)
    (merr : N)                              (* which Marshal call returned an error: 1 kv, 2 ws URL, 4 wt URL, 8 quic
                                               (its output is then recorded as empty and its round trip as None) *)
| ObsKV (r_kv r_ws r_wt : option params)
| ObsURL (r_ws r_wt : option params)
| ObsBin (r : option params)
| ObsDial (p : params)
| ObsProg (obs : list pobs).            (* one observation per step *)

Record neg_case := mkNegCase { nc_in : neg_input; nc_obs : neg_obs }.

Definition singletons (l : kvs) : url_values := map (fun kv => (fst kv, [snd kv])) l.

(* observed bytes are the framing of some ordering of the pairs [l]: peel off, one at a time,
   a pair of [l] whose frame starts the remaining bytes *)
Fixpoint is_prefix (a b : bytes) : bool :=
  match a, b with
  | [], _ => true
  | x :: a', y :: b' => (x =? y) && is_prefix a' b'
  | _ :: _, [] => false
  end.
Fixpoint take_frame (b : bytes) (l : kvs) : option (bytes * kvs) :=
  match l with
  | [] => None
  | kv :: l' =>
      if is_prefix (frame kv) b then Some (skipn (length (frame kv)) b, l')
      else match take_frame b l' with
           | Some (b', l'') => Some (b', kv :: l'')
           | None => None
           end
  end.
Fixpoint match_frames (fuel : nat) (b : bytes) (l : kvs) : bool :=
  match l with
  | [] => is_nil b
  | _ :: _ =>
      match fuel with
      | O => false
      | S fuel' =>
          match take_frame b l with
          | Some (b', l') => match_frames fuel' b' l'
          | None => false
          end
      end
  end.
Definition framing_of (l : kvs) (b : bytes) : bool := match_frames (length l) b l.

Definition env_eqb : list params -> list params -> bool := list_beq _ params_eqb.
Fixpoint prog_corr (env : list params) (steps : list pstep) (obs : list pobs) : bool :=
  match steps, obs with
  | [], [] => true
  | st :: steps', o :: obs' =>
      let r := prog_step env st in
      Bool.eqb (fst (snd r)) (po_ok o) && opt_eqb cconfig_eqb (snd (snd r)) (po_cfg o)
      && env_eqb (fst r) (po_env o) && prog_corr (fst r) steps' obs'
  | _, _ => false
  end.

Definition is_some_o (o : option params) : bool := match o with Some _ => true | None => false end.
Definition neg_corr (c : neg_case) : bool :=
  match nc_in c, nc_obs c with
  | InParams p b1 b2, ObsParams vld kv uws uwt bin rkv rws rwt rbin pbin rperm cfg1 cfg2 merr =>
      oparams_eqb (validate p) vld
      && cconfig_eqb (compress_config p b1) cfg1 && cconfig_eqb (compress_config p b2) cfg2
      && match marshal_kv p with
         | None =>
             (* MarshalKeyValues fails, and with it both URL writers and the quic writer; the
                harness records empty outputs and no round trip *)
             (merr =? 15) && is_nil kv && is_nil uws && is_nil uwt && is_nil bin && is_nil pbin
             && negb (is_some_o rkv) && negb (is_some_o rws) && negb (is_some_o rwt)
             && negb (is_some_o rbin) && negb (is_some_o rperm)
         | Some mkv =>
             let bin_refused := negb (forallb fits16 mkv) in
             (merr =? (if bin_refused then 8 else 0))
             && kvs_eqb (sort_kv mkv) kv
             && url_eqb (sort_by (url_of_kv mkv)) uws && url_eqb (sort_by (url_of_kv mkv)) uwt
             && oparams_eqb (unmarshal_kv mkv) rkv
             && oparams_eqb (unmarshal_url (url_of_kv mkv)) rws
             && oparams_eqb (unmarshal_url (url_of_kv mkv)) rwt
             && (if bin_refused then is_nil bin && negb (is_some_o rbin)
                 else framing_of mkv bin && oparams_eqb (unmarshal_bin bin) rbin)
             && oparams_eqb (unmarshal_bin pbin) rperm
         end
  | InKV init l, ObsKV rkv rws rwt =>
      oparams_eqb (unmarshal_kv_into init l) rkv
      && oparams_eqb (unmarshal_url_into init (singletons l)) rws
      && oparams_eqb (unmarshal_url_into init (singletons l)) rwt
  | InURL vals, ObsURL rws rwt =>
      oparams_eqb (unmarshal_url vals) rws && oparams_eqb (unmarshal_url vals) rwt
  | InBin b, ObsBin r => oparams_eqb (unmarshal_bin b) r
  | InDial dc, ObsDial p => params_eqb (dial_params dc) p
  | InProg n steps, ObsProg obs => prog_corr (repeat p0 (N.to_nat n)) steps obs
  | _, _ => false
  end.

(* ----- the property predicate: written against the property text, not against the model
   of the code above (it shares only data types, byte-string helpers and utf8_valid) ----- *)

Definition known_enc (e : bytes) : bool := is_nil e || bytes_eqb e enc_json || bytes_eqb e enc_proto.
Definition named_comp (c : bytes) : bool := bytes_eqb c comp_pm || bytes_eqb c comp_cto.
Definition in_range (lo hi : Z) (o : option Z) : bool :=
  match o with Some z => (lo <=? z)%Z && (z <=? hi)%Z | None => true end.
(* what Validate accepts AS IT IS WRITTEN (characterised in Proofs: validate_spec): level and
   window bits are looked at only when a compression type is named, text is never looked at.
   NOT the property's notion of a valid set - that is [valid_set] below. *)
Definition valid_spec (p : params) : bool :=
  known_enc (p_enc p)
  && (is_nil (p_comp p)
      || (named_comp (p_comp p) && in_range 0 9 (p_level p) && in_range 0 32 (p_bits p))).
(* a VALID SET, literally per the property text: none of "unknown encoding or compression type,
   level outside 0-9, window bits outside 0-32, invalid UTF-8" (malformed / duplicated keys are
   defects of a carrier's content, see bin_wf and the InKV/InURL arms) *)
Definition valid_text (p : params) : bool :=
  utf8_valid (p_enc p) && utf8_valid (p_comp p) && utf8_valid (p_tid p) && utf8_valid (p_tgid p).
Definition valid_set (p : params) : bool :=
  known_enc (p_enc p) && (is_nil (p_comp p) || named_comp (p_comp p))
  && in_range 0 9 (p_level p) && in_range 0 32 (p_bits p) && valid_text p.
(* what a valid set looks like after Validate: the default level 6 filled in *)
Definition validated_spec (p : params) : params :=
  if named_comp (p_comp p) then
    match p_level p with None => set_level p (Some 6%Z) | Some _ => p end
  else p.

Definition oz_int64 (o : option Z) : bool := match o with Some z => in_int64 z | None => true end.
(* the sets the round trip is claimed for: text fields are UTF-8, ints are machine ints *)
Definition transportable (p : params) : bool :=
  utf8_valid (p_enc p) && utf8_valid (p_comp p) && utf8_valid (p_tid p) && utf8_valid (p_tgid p)
  && oz_int64 (p_level p) && oz_int64 (p_bits p) && in_int64 (p_tgcount p) && in_int64 (p_tgidx p).

(* the settings both ends must arrive at, from the parameters alone *)
Definition eff_spec (comp : bytes) (l w : Z) : eff :=
  if (l =? 0)%Z then Disabled else Enabled (bytes_eqb comp comp_pm) l w.

Definition is_some_p (o : option params) (p : params) : bool := oparams_eqb o (Some p).

(* -- specification of the readers on arbitrary input (independent, declarative) -- *)
Definition lower (b : bytes) : bytes := map (fun c => if (65 <=? c) && (c <=? 90) then c + 32 else c) b.
Definition ascii_only (b : bytes) : bool := forallb (fun c => c <? 128) b.
Definition name_list : list bytes :=
  [k_enc; k_comp; k_clevel; k_cwinbits; k_tid; k_reconnect; k_tgid; k_tgcount; k_tgidx].
Definition is_name (k : bytes) : bool := existsb (bytes_eqb k) name_list.
(* a key the specification speaks about: a parameter name spelled exactly, or an ASCII key
   that is no parameter name in any letter case (must be ignored).  Other spellings (case
   variants, non-ASCII look-alikes) are left to the correspondence check. *)
Definition simple_key (k : bytes) : bool := is_name k || (ascii_only k && negb (is_name (lower k))).
Fixpoint get (k : bytes) (l : kvs) : option bytes :=
  match l with [] => None | (k', v) :: l' => if bytes_eqb k' k then Some v else get k l' end.
Fixpoint nodup_keys (l : kvs) : bool :=
  match l with [] => true | kv :: l' => negb (has_key (fst kv) l') && nodup_keys l' end.

Definition all_digits (b : bytes) : bool := negb (is_nil b) && forallb is_digit b.
(* decimal text of an int64: optional '-', digits; value by the Decimal library *)
Definition spec_int (v : bytes) : option Z :=
  match v with
  | 45 :: r => if all_digits r then
                 match dec_parse r with
                 | Some n => if (Z.of_N n <=? 9223372036854775808)%Z then Some (- Z.of_N n)%Z else None
                 | None => None end
               else None
  | _ => if all_digits v then
           match dec_parse v with
           | Some n => if (Z.of_N n <? 9223372036854775808)%Z then Some (Z.of_N n) else None
           | None => None end
         else None
  end.

(* expected outcome for a map with distinct, simple keys and UTF-8 text, read into [init]:
   reject iff a number is not a decimal int64 (the text null stands for "absent") or the
   reconnect flag is not true/false; otherwise each named field is taken from its key and
   every other field is left as it was *)
Definition spec_ptr (old : option Z) (o : option bytes) : option (option Z) :=
  match o with
  | None => Some old
  | Some v => if bytes_eqb v b_null then Some None
              else match spec_int v with Some z => Some (Some z) | None => None end
  end.
Definition spec_num (old : Z) (o : option bytes) : option Z :=
  match o with
  | None => Some old
  | Some v => if bytes_eqb v b_null then Some old else spec_int v
  end.
Definition spec_flag (old : bool) (o : option bytes) : option bool :=
  match o with
  | None => Some old
  | Some v => if bytes_eqb v b_true then Some true else if bytes_eqb v b_false then Some false else None
  end.
Definition spec_str (old : bytes) (o : option bytes) : bytes := match o with Some v => v | None => old end.

Definition kv_spec (init : params) (l : kvs) : option params :=
  match spec_ptr (p_level init) (get k_clevel l), spec_ptr (p_bits init) (get k_cwinbits l),
        spec_flag (p_reconnect init) (get k_reconnect l),
        spec_num (p_tgcount init) (get k_tgcount l), spec_num (p_tgidx init) (get k_tgidx l) with
  | Some lv, Some bt, Some rc, Some cnt, Some idx =>
      Some (mkP (spec_str (p_enc init) (get k_enc l)) (spec_str (p_comp init) (get k_comp l)) lv bt
                (spec_str (p_tid init) (get k_tid l)) rc (spec_str (p_tgid init) (get k_tgid l)) cnt idx)
  | _, _, _, _, _ => None
  end.
Definition kv_in_scope (l : kvs) : bool :=
  nodup_keys l && forallb (fun kv => simple_key (fst kv) && utf8_valid (fst kv) && utf8_valid (snd kv)) l.

(* a well-formed binary form: divides exactly into length-prefixed pairs, no empty key, no
   key twice, all text UTF-8 *)
Definition bin_wf (b : bytes) : option kvs :=
  match frames_of b with
  | Some fr =>
      if forallb (fun kv => negb (is_nil (fst kv)) && utf8_valid (fst kv) && utf8_valid (snd kv)) fr
         && nodup_keys fr then Some fr else None
  | None => None
  end.

Definition is_none_p (o : option params) : bool := match o with Some _ => false | None => true end.
(* "rejected rather than misread": a carrier may refuse a set, it may never hand up another one *)
Definition not_misread (o : option params) (p : params) : bool := is_none_p o || is_some_p o p.
Definition ints_ok (p : params) : bool :=
  oz_int64 (p_level p) && oz_int64 (p_bits p) && in_int64 (p_tgcount p) && in_int64 (p_tgidx p).
(* every emitted key and value fits the 16-bit length prefix of the binary form (evaluated on
   the pairs the implementation emitted) *)
Definition all_fit16 (kv : kvs) : bool :=
  forallb (fun e => (N.of_nat (length (fst e)) <? 65536) && (N.of_nat (length (snd e)) <? 65536)) kv.
Definition kv_all_utf8 (l : kvs) : bool := forallb (fun kv => utf8_valid (fst kv) && utf8_valid (snd kv)) l.

(* programs: judged on the observations alone, step by step, [before] being the environment the
   implementation showed after the previous step.
   - no sharing: a step on slot i leaves every other slot exactly as it was;
   - Validate depends on nothing but its receiver: valid -> accepted, only the default level
     filled in; invalid -> refused, receiver unchanged;
   - a fresh literal is what was written; a failed reader leaves the (reset) zero value;
   - the config of a set naming type, level and window is [eff_spec] of those. *)
Fixpoint others_same_at (i : option nat) (a b : list params) : bool :=
  match a, b with
  | [], [] => true
  | x :: a', y :: b' =>
      match i with
      | Some O => others_same_at None a' b'
      | Some (S k) => params_eqb x y && others_same_at (Some k) a' b'
      | None => params_eqb x y && others_same_at None a' b'
      end
  | _, _ => false
  end.
Definition pstep_ok (before : list params) (st : pstep) (o : pobs) : bool :=
  let i := pstep_slot st in
  let after := po_env o in
  let a := env_get i before in
  let a' := env_get i after in
  others_same_at (Some (N.to_nat i)) before after
  && match st with
     | PSet _ p => po_ok o && params_eqb a' p
     | PValidate _ =>
         if valid_set a then po_ok o && params_eqb a' (validated_spec a)
         else negb (po_ok o) && params_eqb a' a
     | PConfig _ base =>
         env_eqb before after
         && match po_cfg o, p_level a, p_bits a with
            | Some cfg, Some l, Some w =>
                if named_comp (p_comp a) then eff_eqb (effective cfg) (eff_spec (p_comp a) l w) else true
            | None, _, _ => false
            | _, _, _ => true
            end
     | _ => if po_ok o then true else params_eqb a' p0
     end.
Fixpoint prog_ok (before : list params) (steps : list pstep) (obs : list pobs) : bool :=
  match steps, obs with
  | [], [] => true
  | st :: steps', o :: obs' => pstep_ok before st o && prog_ok (po_env o) steps' obs'
  | _, _ => false
  end.

Definition neg_ok (c : neg_case) : bool :=
  match nc_in c, nc_obs c with
  | InParams p b1 b2, ObsParams vld kv uws uwt bin rkv rws rwt rbin pbin rperm cfg1 cfg2 merr =>
      (* 1. valid sets are accepted (only the default level is filled in), invalid sets rejected *)
      (if valid_set p then is_some_p vld (validated_spec p) else is_none_p vld)
      (* 2. every valid set survives every carrier unchanged, in the emitted order and in the
            order chosen by the harness (whose framing must really be a framing of the emitted
            pairs); the binary form only carries texts shorter than 65536 bytes: a longer one
            must be refused, by the writer or by the reader.
            An invalid set may be refused by a carrier but is never handed up as another set. *)
      && (if valid_set p && ints_ok p
          then is_some_p rkv p && is_some_p rws p && is_some_p rwt p
               && framing_of kv pbin
               && (if all_fit16 kv then is_some_p rbin p && is_some_p rperm p else is_none_p rbin)
          else not_misread rkv p && not_misread rws p && not_misread rwt p
               && not_misread rbin p && (if all_fit16 kv then not_misread rperm p else true))
      (* 3. a set that names type, level and window determines the settings *)
      && (match p_level p, p_bits p with
          | Some l, Some w =>
              if named_comp (p_comp p)
              then eff_eqb (effective cfg1) (eff_spec (p_comp p) l w)
                   && eff_eqb (effective cfg2) (eff_spec (p_comp p) l w)
              else true
          | _, _ => true
          end)
  | InKV init l, ObsKV rkv rws rwt =>
      if negb (kv_all_utf8 l)
      then (* invalid UTF-8 anywhere in the map: rejected *)
           is_none_p rkv && is_none_p rws && is_none_p rwt
      else if kv_in_scope l
      then oparams_eqb rkv (kv_spec init l)
           && (if forallb (fun kv => negb (is_nil (fst kv))) l
               then oparams_eqb rws (kv_spec init l) && oparams_eqb rwt (kv_spec init l)
               else is_none_p rws && is_none_p rwt)
      else true
  | InURL vals, ObsURL rws rwt =>
      if negb (forallb (fun e => utf8_valid (fst e) && forallb utf8_valid (snd e)) vals)
      then is_none_p rws && is_none_p rwt
      else if forallb (fun e => negb (is_nil (fst e)) && (length (snd e) =? 1)%nat) vals
      then let l := map (fun e => (fst e, hd [] (snd e))) vals in
           if kv_in_scope l
           then oparams_eqb rws (kv_spec p0 l) && oparams_eqb rwt (kv_spec p0 l) else true
      else (* an empty key, or a key with zero or several values *)
           is_none_p rws && is_none_p rwt
  | InBin b, ObsBin r =>
      match bin_wf b with
      | None => is_none_p r
      | Some fr => if kv_in_scope fr then oparams_eqb r (kv_spec p0 fr) else true
      end
  | InDial dc, ObsDial p =>
      (* every dialer names type, level and window, and copies the rest *)
      named_comp (p_comp p)
      && Bool.eqb (bytes_eqb (p_comp p) comp_pm) (c_dct (dc_comp dc))
      && Z_opt_eqb (p_level p) (Some (c_level (dc_comp dc)))
      && Z_opt_eqb (p_bits p) (Some (c_bits (dc_comp dc)))
      && bytes_eqb (p_enc p) (dc_enc dc) && bytes_eqb (p_tid p) (dc_tid dc)
      && Bool.eqb (p_reconnect p) (dc_reconnect dc) && bytes_eqb (p_tgid p) (dc_tgid dc)
      && (p_tgcount p =? dc_tgcount dc)%Z && (p_tgidx p =? dc_tgidx dc)%Z
  | InProg n steps, ObsProg obs => prog_ok (repeat p0 (N.to_nat n)) steps obs
  | _, _ => false
  end.

(* judge flags: bit0 = correspondence broken, bit1 = property predicate false *)
Definition neg_judge (c : neg_case) : N :=
  (if neg_corr c then 0 else 1) + (if neg_ok c then 0 else 2).

(* the names used in DESIGN.md / the evidence *)
Definition c17_ok : neg_case -> bool := neg_ok.
Definition c17_corr : neg_case -> bool := neg_corr.

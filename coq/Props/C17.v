(* C17 - negotiation parameters round-trip through every carrier, invalid sets are rejected
   rather than misread, and the compression settings are a function of the parameters alone.
   Property theorems only; each is closed by [exact] of a lemma of Proofs/NegotiationProofs.v.

   Reading of the property text used here (and by the predicate [neg_ok] of Model/Negotiation.v):
   - a VALID SET ([valid_set]) is one with none of the listed defects: encoding absent/json/proto,
     compression type absent/per-message/context-takeover, level absent or 0..9, window bits
     absent or 0..32, all text UTF-8.  Nothing else is required - in particular NO length limit:
     a 65536-byte transport id is a valid set.
   - the round trips are proved on the larger domain [transportable_p] (UTF-8 text, machine
     ints), of which the valid sets are a part (c17_valid_in_domain).
   - the binary form has 16-bit length prefixes: the writer (as it is now) refuses a set with a
     longer key or value, and everything it does write is read back unchanged.
   Two places where the code AS IT IS breaks the text are kept as refutation theorems with
   computed witnesses (reproduced on the real code by h-negotiation, signatures in brackets):
     c17_non_utf8_refuted            [F26:non-utf8-text-replaced]
     c17_level_without_type_refuted  [F27:level-window-unchecked-without-type]
   F25 (bin-length-truncated) is fixed in /repo; c17_former_writer_long_value_misread records it
   as a fact about the former writer. *)
From Coq Require Import String Ascii List NArith ZArith Bool Permutation.
From Iscp Require Import Lib.ListMap Lib.Bytes Lib.Decimal Model.Negotiation Proofs.NegotiationProofs.
Import ListNotations.
Open Scope N_scope.

(* ---------- valid sets ---------- *)

(* Every valid set is accepted by Validate, which changes nothing except filling in the
   default level 6 when a type is named without a level. *)
Theorem c17_valid_accepted : forall p, valid_set p = true -> validate p = Some (validated_spec p).
Proof. exact valid_set_accepted. Qed.
Print Assumptions c17_valid_accepted.

(* Valid sets (group count/index being Go ints) lie in the domain of the round-trip theorems. *)
Theorem c17_valid_in_domain : forall p, valid_set p = true ->
  in_int64 (p_tgcount p) = true -> in_int64 (p_tgidx p) = true -> transportable_p p.
Proof. exact valid_set_transportable. Qed.
Print Assumptions c17_valid_in_domain.

(* ---------- round trips ---------- *)

(* Key/value map: for every set in the domain and EVERY ORDER q of the emitted pairs (a Go map
   has no order), UnmarshalKeyValues of MarshalKeyValues is the identity. *)
Theorem c17_kv_roundtrip : forall p q,
  transportable_p p -> Permutation q (marshal_kv p) -> unmarshal_kv q = Some p.
Proof. exact kv_roundtrip. Qed.
Print Assumptions c17_kv_roundtrip.

(* URL query values (websocket and webtransport): same, one value per key, every order. *)
Theorem c17_url_roundtrip : forall p q,
  transportable_p p -> Permutation q (marshal_kv p) -> unmarshal_url (singletons q) = Some p.
Proof. exact url_roundtrip. Qed.
Print Assumptions c17_url_roundtrip.

(* QUIC binary form, the writer AS IT IS NOW ([marshal_bin_checked]: an error when a key or value
   does not fit the 16-bit length prefix): for every set in the domain and every order in which
   the writer's map iteration emits the pairs, whatever Marshal produces is read back by Unmarshal
   as the same set - no length hypothesis ... *)
Theorem c17_bin_roundtrip : forall p order b,
  transportable_p p -> (forall l, Permutation (order l) l) ->
  marshal_bin_checked order p = Some b -> unmarshal_bin b = Some p.
Proof. exact bin_roundtrip_checked. Qed.
Print Assumptions c17_bin_roundtrip.

(* ... and Marshal refuses iff the set cannot be framed: some emitted key or value is 65536 bytes
   or longer ("rejected rather than misread"; keys are at most 9 bytes, so: some text is). *)
Theorem c17_bin_refuses_iff_too_long : forall p order, (forall l, Permutation (order l) l) ->
  (marshal_bin_checked order p = None <-> exists kv, In kv (marshal_kv p) /\ fits16 kv = false).
Proof. exact bin_checked_refuses_iff. Qed.
Print Assumptions c17_bin_refuses_iff_too_long.

(* The framing itself, with the bound as an explicit premise: every emitted value shorter than
   65536 bytes, any order -> the reader returns the set. *)
Theorem c17_bin_frames_roundtrip : forall p q,
  transportable_p p ->
  (forall kv, In kv (marshal_kv p) -> N.of_nat (length (snd kv)) < 65536) ->
  Permutation q (marshal_kv p) ->
  unmarshal_bin (frames q) = Some p.
Proof. exact bin_roundtrip. Qed.
Print Assumptions c17_bin_frames_roundtrip.

(* F25 - FIXED in /repo (d2e00d7); a statement about the FORMER writer [marshal_bin_former], which
   framed without any check: a set that Validate accepts unchanged, with UTF-8 text, was read
   back WITHOUT ERROR as a different set (the length of a 65536-byte transport id truncated to
   0, its bytes taken for further pairs).  The writer as it is now refuses that set. *)
Theorem c17_former_writer_long_value_misread :
  exists p p', validate p = Some p /\ transportable_p p /\
               unmarshal_bin (marshal_bin_former (fun l => l) p) = Some p' /\ p_tid p' <> p_tid p.
Proof. exact former_writer_long_value_misread. Qed.
Print Assumptions c17_former_writer_long_value_misread.
Theorem c17_long_value_now_refused : marshal_bin_checked (fun l => l) long_p = None.
Proof. exact long_value_refused_when_checked. Qed.
Print Assumptions c17_long_value_now_refused.

(* ---------- rejection ---------- *)

(* Validate, exactly: it rejects iff the encoding is unknown, or the compression type is
   unknown, or a type is named and the level is outside 0..9 or the window bits outside 0..32. *)
Theorem c17_reject : forall p,
  validate p = None <->
  (~ enc_known p) \/ (p_comp p <> [] /\ ~ comp_named p)
  \/ (comp_named p /\ exists l, p_level p = Some l /\ (l < 0 \/ 9 < l)%Z)
  \/ (comp_named p /\ exists w, p_bits p = Some w /\ (w < 0 \/ 32 < w)%Z).
Proof. exact validate_rejects_iff. Qed.
Print Assumptions c17_reject.

(* Hence every invalid set is rejected - outside the two shapes of F26 and F27: the text is
   UTF-8, and level/window are in range whenever no compression type is named. *)
Theorem c17_reject_invalid : forall p,
  valid_text p = true ->
  (p_comp p = [] -> in_range 0 9 (p_level p) && in_range 0 32 (p_bits p) = true) ->
  (validate p = None <-> valid_set p = false).
Proof. exact invalid_rejected. Qed.
Print Assumptions c17_reject_invalid.

(* F27.  A level and window far outside their ranges pass Validate when no type is named, and
   CompressConfig then ENABLES compression with them (on the real code: level 99 makes every
   Write fail, window bits -1 makes Transport.Write panic with "negative shift amount"). *)
Theorem c17_level_without_type_refuted :
  let p := mkP [] [] (Some 99%Z) (Some 77%Z) [] false [] 0 0 in
  validate p = Some p /\ forall base, effective (compress_config p base) = Enabled (c_dct base) 99%Z 77%Z.
Proof. exact level_unchecked_without_type. Qed.
Print Assumptions c17_level_without_type_refuted.

(* F26.  Text that is not UTF-8 is neither rejected nor preserved: Validate accepts the set and
   every carrier's writer replaces the bytes by U+FFFD, so the peer reads another id; and the
   key/value and URL READERS accept a non-UTF-8 value (again as U+FFFD) that the binary reader
   refuses. *)
Theorem c17_non_utf8_refuted :
  let p := mkP [] [] None None [255] false [] 0 0 in
  validate p = Some p /\ unmarshal_kv (marshal_kv p) = Some (mkP [] [] None None [239; 191; 189] false [] 0 0).
Proof. exact non_utf8_altered. Qed.
Print Assumptions c17_non_utf8_refuted.
Theorem c17_non_utf8_reader_refuted :
  unmarshal_kv [(k_tid, [255])] = Some (mkP [] [] None None [239; 191; 189] false [] 0 0)
  /\ unmarshal_url [(k_tid, [[255]])] = Some (mkP [] [] None None [239; 191; 189] false [] 0 0)
  /\ unmarshal_bin (frames [(k_tid, [255])]) = None.
Proof. exact non_utf8_accepted_by_kv_reader. Qed.
Print Assumptions c17_non_utf8_reader_refuted.

(* The binary reader, exactly: on any byte string it accepts iff the bytes are the framing of a
   list of pairs with non-empty UTF-8 keys shorter than 65536 bytes, UTF-8 values, and no key
   twice - and then it returns that list.  Everything else (empty key, duplicate, truncation
   anywhere, a stray byte, invalid UTF-8) is an error, never a different reading. *)
Theorem c17_reject_bin : forall b l, bytes_ok b = true ->
  (read_bin b = Some l <-> b = frames l /\ Forall entry_ok l /\ NoDup (map fst l)).
Proof. exact read_bin_iff. Qed.
Print Assumptions c17_reject_bin.

(* the named defects, each after any well-formed prefix [l] *)
Theorem c17_reject_bin_empty_key : forall l rest, Forall entry_ok l -> NoDup (map fst l) ->
  read_bin (frames l ++ 0 :: 0 :: rest) = None.
Proof. exact reject_empty_key. Qed.
Print Assumptions c17_reject_bin_empty_key.
Theorem c17_reject_bin_duplicate : forall l k v rest, Forall entry_ok l -> NoDup (map fst l) ->
  entry_ok (k, v) -> In k (map fst l) -> read_bin (frames l ++ frame (k, v) ++ rest) = None.
Proof. exact reject_duplicate. Qed.
Print Assumptions c17_reject_bin_duplicate.
Theorem c17_reject_bin_bad_utf8_key : forall l k rest, Forall entry_ok l -> NoDup (map fst l) ->
  k <> [] -> N.of_nat (length k) < 65536 -> utf8_valid k = false ->
  read_bin (frames l ++ len16 k ++ k ++ rest) = None.
Proof. exact reject_bad_key. Qed.
Print Assumptions c17_reject_bin_bad_utf8_key.
Theorem c17_reject_bin_bad_utf8_value : forall l k v rest, Forall entry_ok l -> NoDup (map fst l) ->
  k <> [] -> N.of_nat (length k) < 65536 -> utf8_valid k = true ->
  N.of_nat (length v) < 65536 -> utf8_valid v = false ->
  read_bin (frames l ++ frame (k, v) ++ rest) = None.
Proof. exact reject_bad_value. Qed.
Print Assumptions c17_reject_bin_bad_utf8_value.
Theorem c17_reject_bin_truncated_key : forall l h lo r, Forall entry_ok l -> NoDup (map fst l) ->
  N.of_nat (length r) < rd16 h lo -> read_bin (frames l ++ h :: lo :: r) = None.
Proof. exact reject_short_key. Qed.
Print Assumptions c17_reject_bin_truncated_key.
Theorem c17_reject_bin_truncated_value : forall l k h lo r, Forall entry_ok l -> NoDup (map fst l) ->
  k <> [] -> N.of_nat (length k) < 65536 ->
  N.of_nat (length r) < rd16 h lo -> read_bin (frames l ++ len16 k ++ k ++ h :: lo :: r) = None.
Proof. exact reject_short_value. Qed.
Print Assumptions c17_reject_bin_truncated_value.
Theorem c17_reject_bin_lone_byte : forall l x, Forall entry_ok l -> NoDup (map fst l) ->
  read_bin (frames l ++ [x]) = None.
Proof. exact reject_lone_byte. Qed.
Print Assumptions c17_reject_bin_lone_byte.

(* The key/value reader (whatever else the map holds, whatever the receiver held before): a
   number that is neither a decimal int64 nor the word null, a reconnect flag other than
   true/false, a reconnect key in another letter case; the URL readers: an empty key, a key
   with zero or several values. *)
Theorem c17_reject_kv_number : forall init l k v,
  In (k, v) l -> numeric_key k -> utf8_valid v = true -> v <> b_null -> parse_int v = None ->
  unmarshal_kv_into init l = None.
Proof. exact kv_rejects_bad_number. Qed.
Print Assumptions c17_reject_kv_number.
Theorem c17_reject_kv_bool : forall init l v,
  In (k_reconnect, v) l -> v <> b_true -> v <> b_false -> unmarshal_kv_into init l = None.
Proof. exact kv_rejects_bad_bool. Qed.
Print Assumptions c17_reject_kv_bool.
Theorem c17_reject_url_empty_key : forall init vals vs,
  In ([], vs) vals -> unmarshal_url_into init vals = None.
Proof. exact url_rejects_empty_key. Qed.
Print Assumptions c17_reject_url_empty_key.
Theorem c17_reject_url_multi : forall init vals k vs,
  In (k, vs) vals -> length vs <> 1%nat -> unmarshal_url_into init vals = None.
Proof. exact url_rejects_multi. Qed.
Print Assumptions c17_reject_url_multi.

(* ---------- the derived compression configuration ---------- *)

(* If the set names its compression type, level and window, the settings the transports act on
   are the function [eff_spec] of those three alone - the local base configuration is irrelevant. *)
Theorem c17_config_function : forall p l w base,
  comp_named p -> p_level p = Some l -> p_bits p = Some w ->
  effective (compress_config p base) = eff_spec (p_comp p) l w.
Proof. exact config_function. Qed.
Print Assumptions c17_config_function.

Theorem c17_config_independent_of_base : forall p l w base1 base2,
  comp_named p -> p_level p = Some l -> p_bits p = Some w ->
  effective (compress_config p base1) = effective (compress_config p base2).
Proof. exact config_independent_of_base. Qed.
Print Assumptions c17_config_independent_of_base.

(* Every dialer of the library produces such a set ... *)
Theorem c17_dialer_names_all : forall dc,
  comp_named (dial_params dc) /\ p_level (dial_params dc) = Some (c_level (dc_comp dc))
  /\ p_bits (dial_params dc) = Some (c_bits (dc_comp dc)).
Proof. exact dial_params_named. Qed.
Print Assumptions c17_dialer_names_all.

(* ... so both ends of a connection enable the same mode, level and window: what a peer with ANY
   local defaults derives from the transmitted pairs (in any order) equals what the dialling side
   derives from its own configuration. *)
Theorem c17_peers_agree : forall dc q base,
  transportable_p (dial_params dc) -> Permutation q (marshal_kv (dial_params dc)) ->
  exists p', unmarshal_kv q = Some p' /\
    effective (compress_config p' base) = effective (compress_config (dial_params dc) (dc_comp dc)).
Proof. exact peers_agree. Qed.
Print Assumptions c17_peers_agree.

(* F27, second half: without a named type the settings DO depend on the local defaults. *)
Theorem c17_config_without_type_refuted :
  let p := mkP [] [] (Some 5%Z) (Some 8%Z) [] false [] 0 0 in
  validate p = Some p /\
  effective (compress_config p (mkC false 0 true 0)) <> effective (compress_config p (mkC false 0 false 0)).
Proof. exact level_without_type_depends_on_base. Qed.
Print Assumptions c17_config_without_type_refuted.

(* ---------- non-vacuity ---------- *)

(* a valid set using every field, with non-ASCII text; it is in the domain; seven pairs are
   emitted; written in reverse order it survives all three carriers; two peers with opposite
   local defaults derive the same settings from it *)
Example c17_example :
  let p := mkP enc_proto comp_cto (Some 6%Z) (Some 15%Z) (s2b "t-" ++ [195; 169]) true (s2b "grp") 3 2 in
  let q := rev (marshal_kv p) in
  valid_set p = true /\ transportable p = true /\ length (marshal_kv p) = 9%nat
  /\ all_fit16 (marshal_kv p) = true
  /\ unmarshal_kv q = Some p /\ unmarshal_url (singletons q) = Some p /\ unmarshal_bin (frames q) = Some p
  /\ marshal_bin_checked (@rev _) p = Some (frames q)
  /\ validate p = Some p
  /\ effective (compress_config p (mkC false 1 true 3)) = Enabled false 6%Z 15%Z
  /\ effective (compress_config p (mkC true 9 false 30)) = Enabled false 6%Z 15%Z.
Proof. vm_compute. repeat split; reflexivity. Qed.

(* rejection is not vacuous either: one set per listed defect *)
Example c17_example_reject :
  validate (mkP (s2b "xml") [] None None [] false [] 0 0) = None
  /\ validate (mkP [] (s2b "gzip") None None [] false [] 0 0) = None
  /\ validate (mkP [] comp_pm (Some 10%Z) None [] false [] 0 0) = None
  /\ validate (mkP [] comp_cto (Some 6%Z) (Some 33%Z) [] false [] 0 0) = None
  /\ read_bin [0; 1; 97; 0; 1; 255] = None
  /\ read_bin ([0; 1; 97; 0; 0] ++ [0; 1; 97; 0; 0]) = None.
Proof. vm_compute. repeat split; reflexivity. Qed.

(* C17 - negotiation parameters round-trip through every carrier, invalid sets are rejected
   rather than misread, and the compression settings are a function of the parameters alone.
   Property theorems only; each is closed by [exact] of a lemma of Proofs/NegotiationProofs.v.
   The theorems are about the code AS IT IS NOW, i.e. after the repairs of F25 (quic writer
   refuses texts over 65535 bytes), F26 (text that is not UTF-8 refused by Validate, by
   MarshalKeyValues and by UnmarshalKeyValues) and F27 (level and window bits validated whether
   or not a compression type is named).  The former behaviour is recorded at the end as lemmas
   about [validate_former], [marshal_kv_former], [unmarshal_kv_into_former], [marshal_bin_former].

   Reading of the property text used here (and by the predicate [neg_ok] of Model/Negotiation.v):
   - a VALID SET ([valid_set]) is one with none of the listed defects: encoding absent/json/proto,
     compression type absent/per-message/context-takeover, level absent or 0..9, window bits
     absent or 0..32, all text UTF-8.  Nothing else is required - in particular NO length limit.
   - the round trips are proved on the larger domain [transportable_p] (UTF-8 text, machine
     ints), of which the valid sets are a part (c17_valid_in_domain).
   - [kv_pairs p] are the pairs MarshalKeyValues emits; [marshal_kv p] is MarshalKeyValues itself
     (None = error); [marshal_bin_checked] is quic Marshal (None = error). *)
From Coq Require Import String Ascii List NArith ZArith Bool Permutation.
From Iscp Require Import Lib.ListMap Lib.Bytes Lib.Decimal Model.Negotiation Proofs.NegotiationProofs.
Import ListNotations.
Open Scope N_scope.

(* ---------- valid sets ---------- *)

(* Every valid set is accepted by Validate, which changes nothing except filling in the
   default level 6 when a type is named without a level. *)
Theorem c17_valid_accepted : forall p, valid_set p = true -> validate p = Some (validated_spec p).
Proof. exact valid_set_accepted. Qed.
Print Assumptions c17_valid_accepted.

(* Valid sets (group count/index being Go ints) lie in the domain of the round-trip theorems. *)
Theorem c17_valid_in_domain : forall p, valid_set p = true ->
  in_int64 (p_tgcount p) = true -> in_int64 (p_tgidx p) = true -> transportable_p p.
Proof. exact valid_set_transportable. Qed.
Print Assumptions c17_valid_in_domain.

(* ---------- round trips ---------- *)

(* Key/value map: for every set in the domain MarshalKeyValues succeeds, and for EVERY ORDER q of
   the pairs it emitted (a Go map has no order) UnmarshalKeyValues returns the set. *)
Theorem c17_kv_marshal_succeeds : forall p, transportable_p p -> marshal_kv p = Some (kv_pairs p).
Proof. exact marshal_kv_some. Qed.
Print Assumptions c17_kv_marshal_succeeds.
Theorem c17_kv_roundtrip : forall p l q,
  transportable_p p -> marshal_kv p = Some l -> Permutation q l -> unmarshal_kv q = Some p.
Proof. exact kv_roundtrip_now. Qed.
Print Assumptions c17_kv_roundtrip.

(* MarshalKeyValues (and with it both URL writers and the quic writer) refuses exactly the sets
   whose text is not UTF-8 - they are no longer sent with U+FFFD in place of the bytes. *)
Theorem c17_kv_marshal_refuses_iff : forall p, marshal_kv p = None <-> valid_text p = false.
Proof. exact marshal_kv_refuses_iff. Qed.
Print Assumptions c17_kv_marshal_refuses_iff.

(* URL query values (websocket and webtransport): same, one value per key, every order. *)
Theorem c17_url_roundtrip : forall p u q,
  transportable_p p -> marshal_url p = Some u -> Permutation q u -> unmarshal_url q = Some p.
Proof. exact url_roundtrip_now. Qed.
Print Assumptions c17_url_roundtrip.

(* QUIC binary form, the writer AS IT IS NOW ([marshal_bin_checked]: an error when a key or value
   does not fit the 16-bit length prefix): for every set in the domain and every order in which
   the writer's map iteration emits the pairs, whatever Marshal produces is read back by Unmarshal
   as the same set - no length hypothesis ... *)
Theorem c17_bin_roundtrip : forall p order b,
  transportable_p p -> (forall l, Permutation (order l) l) ->
  marshal_bin_checked order p = Some b -> unmarshal_bin b = Some p.
Proof. exact bin_roundtrip_checked. Qed.
Print Assumptions c17_bin_roundtrip.

(* ... and Marshal refuses iff the text is not UTF-8 or the set cannot be framed: some emitted
   key or value is 65536 bytes or longer ("rejected rather than misread"). *)
Theorem c17_bin_refuses_iff_too_long : forall p order, (forall l, Permutation (order l) l) ->
  (marshal_bin_checked order p = None <->
   valid_text p = false \/ exists kv, In kv (kv_pairs p) /\ fits16 kv = false).
Proof. exact bin_checked_refuses_iff. Qed.
Print Assumptions c17_bin_refuses_iff_too_long.

(* The framing itself, with the bound as an explicit premise: every emitted value shorter than
   65536 bytes, any order -> the reader returns the set. *)
Theorem c17_bin_frames_roundtrip : forall p q,
  transportable_p p ->
  (forall kv, In kv (kv_pairs p) -> N.of_nat (length (snd kv)) < 65536) ->
  Permutation q (kv_pairs p) ->
  unmarshal_bin (frames q) = Some p.
Proof. exact bin_roundtrip. Qed.
Print Assumptions c17_bin_frames_roundtrip.

(* ---------- rejection ---------- *)

(* Validate rejects EXACTLY the invalid sets - unconditionally ... *)
Theorem c17_reject_invalid : forall p, validate p = None <-> valid_set p = false.
Proof. exact invalid_rejected. Qed.
Print Assumptions c17_reject_invalid.

(* ... spelled out defect by defect: it rejects iff some text is not UTF-8, or the encoding is
   unknown, or the compression type is unknown, or the level is outside 0..9, or the window bits
   are outside 0..32 (the last two whether or not a type is named). *)
Theorem c17_reject : forall p,
  validate p = None <->
  valid_text p = false \/ (~ enc_known p) \/ (p_comp p <> [] /\ ~ comp_named p)
  \/ (exists l, p_level p = Some l /\ (l < 0 \/ 9 < l)%Z)
  \/ (exists w, p_bits p = Some w /\ (w < 0 \/ 32 < w)%Z).
Proof. exact validate_rejects_iff. Qed.
Print Assumptions c17_reject.

(* What Validate lets through is a valid set with level and window bits in range: a validated
   set can no longer hand CompressConfig a level that flate refuses or window bits that make
   WindowSize() panic. *)
Theorem c17_validated_in_range : forall p p', validate p = Some p' ->
  in_range 0 9 (p_level p') = true /\ in_range 0 32 (p_bits p') = true /\ valid_set p' = true.
Proof. exact validated_in_range. Qed.
Print Assumptions c17_validated_in_range.

(* The key/value reader and the URL readers refuse a map in which any key or value is not UTF-8,
   whatever else it holds (the binary reader: c17_reject_bin_bad_utf8_key and _value). *)
Theorem c17_reject_kv_non_utf8 : forall init l, kv_text_ok l = false -> unmarshal_kv_into init l = None.
Proof. exact kv_rejects_non_utf8. Qed.
Print Assumptions c17_reject_kv_non_utf8.
Theorem c17_reject_url_non_utf8 : forall init vals k v,
  In (k, [v]) vals -> utf8_valid k && utf8_valid v = false -> unmarshal_url_into init vals = None.
Proof. exact url_rejects_non_utf8. Qed.
Print Assumptions c17_reject_url_non_utf8.

(* The binary reader, exactly: on any byte string it accepts iff the bytes are the framing of a
   list of pairs with non-empty UTF-8 keys shorter than 65536 bytes, UTF-8 values, and no key
   twice - and then it returns that list.  Everything else (empty key, duplicate, truncation
   anywhere, a stray byte, invalid UTF-8) is an error, never a different reading. *)
Theorem c17_reject_bin : forall b l, bytes_ok b = true ->
  (read_bin b = Some l <-> b = frames l /\ Forall entry_ok l /\ NoDup (map fst l)).
Proof. exact read_bin_iff. Qed.
Print Assumptions c17_reject_bin.

(* the named defects, each after any well-formed prefix [l] *)
Theorem c17_reject_bin_empty_key : forall l rest, Forall entry_ok l -> NoDup (map fst l) ->
  read_bin (frames l ++ 0 :: 0 :: rest) = None.
Proof. exact reject_empty_key. Qed.
Print Assumptions c17_reject_bin_empty_key.
Theorem c17_reject_bin_duplicate : forall l k v rest, Forall entry_ok l -> NoDup (map fst l) ->
  entry_ok (k, v) -> In k (map fst l) -> read_bin (frames l ++ frame (k, v) ++ rest) = None.
Proof. exact reject_duplicate. Qed.
Print Assumptions c17_reject_bin_duplicate.
Theorem c17_reject_bin_bad_utf8_key : forall l k rest, Forall entry_ok l -> NoDup (map fst l) ->
  k <> [] -> N.of_nat (length k) < 65536 -> utf8_valid k = false ->
  read_bin (frames l ++ len16 k ++ k ++ rest) = None.
Proof. exact reject_bad_key. Qed.
Print Assumptions c17_reject_bin_bad_utf8_key.
Theorem c17_reject_bin_bad_utf8_value : forall l k v rest, Forall entry_ok l -> NoDup (map fst l) ->
  k <> [] -> N.of_nat (length k) < 65536 -> utf8_valid k = true ->
  N.of_nat (length v) < 65536 -> utf8_valid v = false ->
  read_bin (frames l ++ frame (k, v) ++ rest) = None.
Proof. exact reject_bad_value. Qed.
Print Assumptions c17_reject_bin_bad_utf8_value.
Theorem c17_reject_bin_truncated_key : forall l h lo r, Forall entry_ok l -> NoDup (map fst l) ->
  N.of_nat (length r) < rd16 h lo -> read_bin (frames l ++ h :: lo :: r) = None.
Proof. exact reject_short_key. Qed.
Print Assumptions c17_reject_bin_truncated_key.
Theorem c17_reject_bin_truncated_value : forall l k h lo r, Forall entry_ok l -> NoDup (map fst l) ->
  k <> [] -> N.of_nat (length k) < 65536 ->
  N.of_nat (length r) < rd16 h lo -> read_bin (frames l ++ len16 k ++ k ++ h :: lo :: r) = None.
Proof. exact reject_short_value. Qed.
Print Assumptions c17_reject_bin_truncated_value.
Theorem c17_reject_bin_lone_byte : forall l x, Forall entry_ok l -> NoDup (map fst l) ->
  read_bin (frames l ++ [x]) = None.
Proof. exact reject_lone_byte. Qed.
Print Assumptions c17_reject_bin_lone_byte.

(* The key/value reader (whatever else the map holds, whatever the receiver held before): a
   number that is neither a decimal int64 nor the word null, a reconnect flag other than
   true/false, a reconnect key in another letter case; the URL readers: an empty key, a key
   with zero or several values. *)
Theorem c17_reject_kv_number : forall init l k v,
  In (k, v) l -> numeric_key k -> utf8_valid v = true -> v <> b_null -> parse_int v = None ->
  unmarshal_kv_into init l = None.
Proof. exact kv_rejects_bad_number. Qed.
Print Assumptions c17_reject_kv_number.

(* In particular a key that is REPEATED in the URL form - two or more values, identical or not, a
   known parameter or an unknown key - is an error: the carrier is a list of value lists and the
   reader demands length exactly 1; nothing is deduplicated. *)
Theorem c17_repeated_key_rejected : forall init vals k v n,
  In (k, repeat v (S (S n))) vals -> unmarshal_url_into init vals = None.
Proof. exact url_rejects_repeated_key. Qed.
Print Assumptions c17_repeated_key_rejected.
Theorem c17_reject_kv_bool : forall init l v,
  In (k_reconnect, v) l -> v <> b_true -> v <> b_false -> unmarshal_kv_into init l = None.
Proof. exact kv_rejects_bad_bool. Qed.
Print Assumptions c17_reject_kv_bool.
Theorem c17_reject_url_empty_key : forall init vals vs,
  In ([], vs) vals -> unmarshal_url_into init vals = None.
Proof. exact url_rejects_empty_key. Qed.
Print Assumptions c17_reject_url_empty_key.
Theorem c17_reject_url_multi : forall init vals k vs,
  In (k, vs) vals -> length vs <> 1%nat -> unmarshal_url_into init vals = None.
Proof. exact url_rejects_multi. Qed.
Print Assumptions c17_reject_url_multi.

(* ---------- the derived compression configuration ---------- *)

(* If the set names its compression type, level and window, the settings the transports act on
   are the function [eff_spec] of those three alone - the local base configuration is irrelevant. *)
Theorem c17_config_function : forall p l w base,
  comp_named p -> p_level p = Some l -> p_bits p = Some w ->
  effective (compress_config p base) = eff_spec (p_comp p) l w.
Proof. exact config_function. Qed.
Print Assumptions c17_config_function.

Theorem c17_config_independent_of_base : forall p l w base1 base2,
  comp_named p -> p_level p = Some l -> p_bits p = Some w ->
  effective (compress_config p base1) = effective (compress_config p base2).
Proof. exact config_independent_of_base. Qed.
Print Assumptions c17_config_independent_of_base.

(* Every dialer of the library produces such a set ... *)
Theorem c17_dialer_names_all : forall dc,
  comp_named (dial_params dc) /\ p_level (dial_params dc) = Some (c_level (dc_comp dc))
  /\ p_bits (dial_params dc) = Some (c_bits (dc_comp dc)).
Proof. exact dial_params_named. Qed.
Print Assumptions c17_dialer_names_all.

(* ... so both ends of a connection enable the same mode, level and window: what a peer with ANY
   local defaults derives from the transmitted pairs (in any order) equals what the dialling side
   derives from its own configuration. *)
Theorem c17_peers_agree : forall dc q base,
  transportable_p (dial_params dc) -> Permutation q (kv_pairs (dial_params dc)) ->
  exists p', unmarshal_kv q = Some p' /\
    effective (compress_config p' base) = effective (compress_config (dial_params dc) (dc_comp dc)).
Proof. exact peers_agree. Qed.
Print Assumptions c17_peers_agree.

(* NOT a violation - a remark on the hypothesis of c17_config_function: the clause of the
   property is about sets that NAME their type.  A valid set without a type is accepted (level
   and window in range, so nothing can fail or panic), and then the mode comes from the local
   default; no dialer of the library produces such a set (c17_dialer_names_all).  Nothing more is
   needed for the clause: with a named type, level and window the settings are [eff_spec]. *)
Theorem c17_config_needs_named_type :
  let p := mkP [] [] (Some 5%Z) (Some 8%Z) [] false [] 0 0 in
  validate p = Some p /\
  effective (compress_config p (mkC false 0 true 0)) <> effective (compress_config p (mkC false 0 false 0)).
Proof. exact config_needs_named_type. Qed.
Print Assumptions c17_config_needs_named_type.

(* ---------- several sets in one process: value semantics ---------- *)

(* A program is any sequence of: a fresh literal, Validate, the key/value / websocket /
   webtransport / quic reader decoding INTO an existing set, CompressConfig - over any number of
   sets.  In the model a program is a fold over an environment of VALUES, and:
   a step on one set never changes another set ... *)
Theorem c17_sets_isolated : forall env st j, j <> pstep_slot st ->
  env_get j (fst (prog_step env st)) = env_get j env.
Proof. exact prog_step_isolated. Qed.
Print Assumptions c17_sets_isolated.

(* ... and for EVERY program the observations satisfy the predicate [prog_ok] the harness evaluates
   on the real types after every step: other sets untouched, Validate = the function
   [validated_spec] of its receiver alone (so the default level is 6 whatever was decoded or
   validated before), and the config derived from a set that names type, level and window is
   [eff_spec] of those and the base plays no part (c17_config_function) - whatever happened
   earlier in the process.  On the Go side (pointer-valued fields, readers that decode in place,
   package-level state) this is a separate obligation, tied by running such programs
   (h-negotiation, kinds prog-scripted and prog-random). *)
Theorem c17_value_semantics : forall steps env,
  Forall (fun st => (N.to_nat (pstep_slot st) < length env)%nat) steps ->
  prog_ok env steps (prog_obs env steps) = true.
Proof. exact prog_value_semantics. Qed.
Print Assumptions c17_value_semantics.

(* the scripted program of the harness, in the model: decoding clevel=3 into a validated set
   changes that set only; a set validated afterwards still gets level 6 *)
Example c17_example_program :
  let t := mkP [] comp_cto None None [] false [] 0 0 in
  let steps := [PSet 0 t; PValidate 0; PKV 0 [(k_clevel, s2b "3")]; PSet 1 t; PValidate 1;
                PConfig 1 (mkC false 1 true 3); PConfig 0 (mkC false 1 true 3)] in
  map po_cfg (prog_obs [p0; p0] steps)
    = [None; None; None; None; None; Some (mkC true 6 false 3); Some (mkC true 3 false 3)]
  /\ last (map po_env (prog_obs [p0; p0] steps)) [] = [set_level t (Some 3%Z); set_level t (Some 6%Z)].
Proof. vm_compute. split; reflexivity. Qed.

(* ---------- the FORMER code (findings F25, F26, F27 - all repaired in /repo) ---------- *)

(* F25 - FIXED in /repo (d2e00d7); a statement about the FORMER writer [marshal_bin_former], which
   framed without any check: a set that Validate accepts unchanged, with UTF-8 text, was read
   back WITHOUT ERROR as a different set (the length of a 65536-byte transport id truncated to
   0, its bytes taken for further pairs).  The writer as it is now refuses that set. *)
Theorem c17_former_writer_long_value_misread :
  exists p p', validate p = Some p /\ transportable_p p /\
               unmarshal_bin (marshal_bin_former (fun l => l) p) = Some p' /\ p_tid p' <> p_tid p.
Proof. exact former_writer_long_value_misread. Qed.
Print Assumptions c17_former_writer_long_value_misread.
Theorem c17_long_value_now_refused : marshal_bin_checked (fun l => l) long_p = None.
Proof. exact long_value_refused_when_checked. Qed.
Print Assumptions c17_long_value_now_refused.

(* F26 - FIXED (1a00ab3).  The former Validate accepted text that is not UTF-8 and the former
   writers replaced the bytes by U+FFFD, so the peer read another id; the former key/value and
   URL readers accepted a non-UTF-8 value in the same way.  Now: refused everywhere. *)
Theorem c17_former_non_utf8_altered :
  let p := mkP [] [] None None [255] false [] 0 0 in
  validate_former p = Some p /\
  unmarshal_kv_into_former p0 (marshal_kv_former p) = Some (mkP [] [] None None [239; 191; 189] false [] 0 0).
Proof. exact former_non_utf8_altered. Qed.
Print Assumptions c17_former_non_utf8_altered.
Theorem c17_former_reader_accepted_non_utf8 :
  unmarshal_kv_into_former p0 [(k_tid, [255])] = Some (mkP [] [] None None [239; 191; 189] false [] 0 0).
Proof. exact former_non_utf8_accepted_by_kv_reader. Qed.
Print Assumptions c17_former_reader_accepted_non_utf8.
Theorem c17_non_utf8_now_refused :
  let p := mkP [] [] None None [255] false [] 0 0 in
  validate p = None /\ marshal_kv p = None /\ marshal_url p = None /\ marshal_bin_checked (fun l => l) p = None.
Proof. exact non_utf8_now_refused. Qed.
Print Assumptions c17_non_utf8_now_refused.
Theorem c17_non_utf8_now_refused_by_readers :
  unmarshal_kv [(k_tid, [255])] = None /\ unmarshal_url [(k_tid, [[255]])] = None
  /\ unmarshal_bin (frames [(k_tid, [255])]) = None.
Proof. exact non_utf8_now_refused_by_readers. Qed.
Print Assumptions c17_non_utf8_now_refused_by_readers.

(* F27 - FIXED (20ec58b).  The former Validate passed a level and window far outside their ranges
   when no type was named, and CompressConfig then ENABLED compression with them (on the real
   code: level 99 made every Write fail, window bits -1 made Transport.Write panic).  It
   rejected invalid sets only outside the shapes of F26 and F27.  Now: refused. *)
Theorem c17_former_level_unchecked_without_type :
  let p := mkP [] [] (Some 99%Z) (Some 77%Z) [] false [] 0 0 in
  validate_former p = Some p /\ forall base, effective (compress_config p base) = Enabled (c_dct base) 99%Z 77%Z.
Proof. exact former_level_unchecked_without_type. Qed.
Print Assumptions c17_former_level_unchecked_without_type.
Theorem c17_former_reject_invalid : forall p,
  valid_text p = true ->
  (p_comp p = [] -> in_range 0 9 (p_level p) && in_range 0 32 (p_bits p) = true) ->
  (validate_former p = None <-> valid_set p = false).
Proof. exact former_invalid_rejected. Qed.
Print Assumptions c17_former_reject_invalid.
Theorem c17_level_without_type_now_refused :
  validate (mkP [] [] (Some 99%Z) (Some 77%Z) [] false [] 0 0) = None
  /\ validate (mkP [] [] (Some 5%Z) (Some (-1)%Z) [] false [] 0 0) = None.
Proof. exact level_without_type_now_refused. Qed.
Print Assumptions c17_level_without_type_now_refused.

(* ---------- non-vacuity ---------- *)

(* a valid set using every field, with non-ASCII text; it is in the domain; seven pairs are
   emitted; written in reverse order it survives all three carriers; two peers with opposite
   local defaults derive the same settings from it *)
Example c17_example :
  let p := mkP enc_proto comp_cto (Some 6%Z) (Some 15%Z) (s2b "t-" ++ [195; 169]) true (s2b "grp") 3 2 in
  let q := rev (kv_pairs p) in
  valid_set p = true /\ transportable p = true /\ length (kv_pairs p) = 9%nat
  /\ all_fit16 (kv_pairs p) = true
  /\ unmarshal_kv q = Some p /\ unmarshal_url (singletons q) = Some p /\ unmarshal_bin (frames q) = Some p
  /\ marshal_kv p = Some (kv_pairs p) /\ marshal_bin_checked (@rev _) p = Some (frames q)
  /\ validate p = Some p
  /\ effective (compress_config p (mkC false 1 true 3)) = Enabled false 6%Z 15%Z
  /\ effective (compress_config p (mkC true 9 false 30)) = Enabled false 6%Z 15%Z.
Proof. vm_compute. repeat split; reflexivity. Qed.

(* enc=json&clevel=6&enc=json and friends are refused; the same query without the repetition is read *)
Example c17_example_repeated_key :
  unmarshal_url [(k_enc, [enc_json; enc_json]); (k_clevel, [s2b "6"])] = None
  /\ unmarshal_url [(k_cwinbits, [s2b "15"; s2b "15"; s2b "15"])] = None
  /\ unmarshal_url [(s2b "foo", [s2b "bar"; s2b "bar"])] = None
  /\ unmarshal_url [(k_enc, [enc_json]); (k_clevel, [s2b "6"])] = Some (mkP enc_json [] (Some 6%Z) None [] false [] 0 0).
Proof. exact repeated_key_rejected_example. Qed.

(* rejection is not vacuous either: one set per listed defect *)
Example c17_example_reject :
  validate (mkP (s2b "xml") [] None None [] false [] 0 0) = None
  /\ validate (mkP [] (s2b "gzip") None None [] false [] 0 0) = None
  /\ validate (mkP [] comp_pm (Some 10%Z) None [] false [] 0 0) = None
  /\ validate (mkP [] comp_cto (Some 6%Z) (Some 33%Z) [] false [] 0 0) = None
  /\ validate (mkP [] [] (Some 10%Z) None [] false [] 0 0) = None
  /\ validate (mkP [] [] None (Some (-1)%Z) [] false [] 0 0) = None
  /\ validate (mkP [] [] None None [255] false [] 0 0) = None
  /\ marshal_kv (mkP [] [] None None [] false [237; 160; 128] 0 0) = None
  /\ unmarshal_kv [(s2b "x", [255])] = None
  /\ read_bin [0; 1; 97; 0; 1; 255] = None
  /\ read_bin ([0; 1; 97; 0; 0] ++ [0; 1; 97; 0; 0]) = None.
Proof. vm_compute. repeat split; reflexivity. Qed.

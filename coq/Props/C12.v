(* C12 - decoders never crash on hostile bytes and accept only self-consistent messages.
   Property theorems only.  The byte parsers (gogo-protobuf Unmarshal, jsonpb) are third-party and
   NOT modelled: "for all byte strings" is carried from the parsed structure on - [unmarshal] is an
   arbitrary function, so every structure a parser could return is covered (nil sub-messages,
   wrong-length uuids, unknown enum numbers, absent oneofs, nil list elements, nil map values). *)
From Coq Require Import List NArith ZArith Bool String.
From Iscp Require Import Gen.Enums Gen.Conv Model.Codec Proofs.CodecProofs.
Import ListNotations.
Open Scope Z_scope.

(* With the recover flags T2 extracts from the four codec entry points of the current source (all
   true), no outcome of DecodeFrom / EncodeTo is a panic - for every parser, every byte string,
   every message. *)
Theorem c12_no_panic_escapes :
  has_recover_pb_dec = true /\ has_recover_json_dec = true /\ has_recover_pb_enc = true /\ has_recover_json_enc = true /\
  forall (unmarshal : list N -> option value) (bs : list N) (marshal : value -> option (list N)) (m : value),
    decode_from unmarshal has_recover_pb_dec bs <> Panic /\ decode_from unmarshal has_recover_json_dec bs <> Panic /\
    encode_to marshal has_recover_pb_enc m <> Panic /\ encode_to marshal has_recover_json_enc m <> Panic.
Proof. exact no_panic_escapes_generated. Qed.
Print Assumptions c12_no_panic_escapes.

(* ... and the recover is load-bearing: the converter itself panics on a structure jsonpb produces
   for {"connect_request":null}; without the recover that panic escapes *)
Theorem c12_recover_needed :
  exists p, eval p2w_msg p = Panic /\
    forall (unmarshal : list N -> option value) bs, unmarshal bs = Some p -> decode_from unmarshal false bs = Panic.
Proof. exact decode_panics_without_recover. Qed.
Print Assumptions c12_recover_needed.

(* size gate (validateMessageSize, called in Transport.Read before DecodeFrom - facts generated from
   the source): with a maximum M <> 0 every buffer longer than M is rejected, every buffer of length
   <= M reaches the decoder; M = 0 means unlimited *)
Theorem c12_size_gate :
  size_gate_op = ">"%string /\ size_gate_zero_unlimited = true /\ size_gate_before_decode = true /\
  forall max len,
    (max = 0 -> size_gate max len = false) /\
    (max <> 0 -> len > max -> size_gate max len = true) /\
    (max <> 0 -> len <= max -> size_gate max len = false).
Proof. exact size_gate_generated. Qed.
Print Assumptions c12_size_gate.

(* re-encode stability, PARTIAL: a decoded message that lies in the forward domain encodes and
   decodes back to its canonical form.  Missing for the full statement: a proof that every message
   the backward converter produces lies in the forward domain and is canonical - which is FALSE for
   the code as it is (next theorem); for all other structures it is checked by the harness h-fuzz
   on every produced message, not proved. *)
Theorem c12_reencode_stable_partial : forall p m,
  eval p2w_msg p = Ok m -> in_range w2p_msg m = true -> model_roundtrip m = Ok (canon w2p_msg m).
Proof. exact reencode_stable_in_range. Qed.
Print Assumptions c12_reencode_stable_partial.

(* F22: the structure jsonpb produces for {"upstream_chunk":{"stream_chunk":{"data_point_groups":[null]}}}
   is accepted (nil group -> empty group without data id), the produced message encodes, and the
   encoding is rejected by the decoder *)
Theorem c12_reencode_refuted :
  exists m, eval p2w_msg f22_proto = Ok m /\ is_ok (eval w2p_msg m) = true /\ model_roundtrip m = Err.
Proof. exact reencode_refuted. Qed.
Print Assumptions c12_reencode_refuted.

(* non-vacuity: hostile structures and their outcomes *)
Example c12_example :
  (* wrong-length uuid in a resume request: error *)
  eval p2w_msg (VOneof 5 (VStruct [VInt 1; VBytes [1%N; 2%N]; VNil])) = Err /\
  (* unknown result code number: error *)
  eval p2w_msg (VOneof 2 (VStruct [VInt 999; VBytes []; VNil])) = Err /\
  (* absent oneof: error *)
  eval p2w_msg VNil = Err /\
  (* wrong-length uuid in an ack's alias table: panic inside the converter (uuid.Must), recovered *)
  eval p2w_msg (VOneof 23 (VStruct [VInt 0; VInt 0; VList []; VMap [(1, VStruct [VBytes []; VBytes [9%N]; VBytes []])]; VMap []; VNil])) = Panic /\
  model_decode true (Some (VOneof 23 (VStruct [VInt 0; VInt 0; VList []; VMap [(1, VStruct [VBytes []; VBytes [9%N]; VBytes []])]; VMap []; VNil]))) = Err /\
  (* a priority above 255 is truncated on decode and the result is stable *)
  (exists m, eval p2w_msg (VOneof 25 (VStruct [VInt 1; VOneof 0 (VStruct [VBytes []; VBytes []; VInt 300; VInt 5; VInt 0]); VNil])) = Ok m /\
             model_roundtrip m = Ok m).
Proof.
  split; [vm_compute; reflexivity|]. split; [vm_compute; reflexivity|]. split; [vm_compute; reflexivity|].
  split; [vm_compute; reflexivity|]. split; [vm_compute; reflexivity|].
  eexists. split; [vm_compute; reflexivity | vm_compute; reflexivity].
Qed.

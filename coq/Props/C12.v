(* C12 - decoders never crash on hostile bytes and accept only self-consistent messages.
   Property theorems only.  The byte parsers (gogo-protobuf Unmarshal, jsonpb) are third-party and
   NOT modelled: "for all byte strings" is carried from the parsed structure on - [unmarshal] is an
   arbitrary function, so every structure a parser could return is covered (nil sub-messages,
   wrong-length uuids, unknown enum numbers, absent oneofs, nil list elements, nil map values).
   F24 (nil data point group accepted) is repaired in the source; F30 (the protobuf decoder accepts strings
   that are not UTF-8, which the JSON re-encoding alters) lies in the byte layer and is a known finding. *)
From Coq Require Import List NArith ZArith Bool String.
From Iscp Require Import Gen.Enums Gen.Conv Model.Codec Proofs.CodecProofs.
Import ListNotations.
Open Scope Z_scope.

(* With the recover flags T2 extracts from the four codec entry points of the current source (all
   true), no outcome of DecodeFrom / EncodeTo is a panic - for every parser, every byte string,
   every message. *)
Theorem c12_no_panic_escapes :
  has_recover_pb_dec = true /\ has_recover_json_dec = true /\ has_recover_pb_enc = true /\ has_recover_json_enc = true /\
  forall (unmarshal : list N -> option value) (bs : list N) (marshal : value -> option (list N)) (m : value),
    decode_from unmarshal has_recover_pb_dec bs <> Panic /\ decode_from unmarshal has_recover_json_dec bs <> Panic /\
    encode_to marshal has_recover_pb_enc m <> Panic /\ encode_to marshal has_recover_json_enc m <> Panic.
Proof. exact no_panic_escapes_generated. Qed.
Print Assumptions c12_no_panic_escapes.

(* ... and the recover is load-bearing: the converter itself panics on a structure jsonpb produces
   for {"connect_request":null}; without the recover that panic escapes *)
Theorem c12_recover_needed :
  exists p, eval p2w_msg p = Panic /\
    forall (unmarshal : list N -> option value) bs, unmarshal bs = Some p -> decode_from unmarshal false bs = Panic.
Proof. exact decode_panics_without_recover. Qed.
Print Assumptions c12_recover_needed.

(* size gate (validateMessageSize, called in Transport.Read before DecodeFrom - facts generated from
   the source): with a maximum M <> 0 every buffer longer than M is rejected, every buffer of length
   <= M reaches the decoder; M = 0 means unlimited *)
Theorem c12_size_gate :
  size_gate_op = ">"%string /\ size_gate_zero_unlimited = true /\ size_gate_before_decode = true /\
  forall max len,
    (max = 0 -> size_gate max len = false) /\
    (max <> 0 -> len > max -> size_gate max len = true) /\
    (max <> 0 -> len <= max -> size_gate max len = false).
Proof. exact size_gate_generated. Qed.
Print Assumptions c12_size_gate.

(* re-encode stability, IN FULL, for the decoder as it is.  [bdom] states what Go's types guarantee
   about a parsed proto structure (uint32 seconds and milliseconds, int64 nanoseconds, uuid.UUID =
   [16]byte).  For EVERY such structure - whatever the byte parser and the bytes: if the decoder
   produces a message, the message encodes and its encoding decodes back to it (nil and empty
   collections identified).  Proved by induction on conversion terms (a syntactic relation between the
   backward and the forward term implies "produced values lie in the forward domain and are
   canonical"); the relation itself is checked on the two converters by computation. *)
Theorem c12_reencode_stable : forall p m,
  bdom p2w_msg p = true -> eval p2w_msg p = Ok m ->
  exists m', model_roundtrip m = Ok m' /\ nilnorm m' = nilnorm m.
Proof. exact reencode_stable. Qed.
Print Assumptions c12_reencode_stable.

(* the same for messages known to lie in the forward domain (no typing hypothesis needed) *)
Theorem c12_reencode_stable_in_range : forall p m,
  eval p2w_msg p = Ok m -> in_range w2p_msg m = true -> model_roundtrip m = Ok (canon w2p_msg m).
Proof. exact reencode_stable_in_range. Qed.
Print Assumptions c12_reencode_stable_in_range.

(* record of F24 (repaired in the source): a statement about the FORMER chunk conversion term, in which
   toDataPointGroup turned a nil group - what jsonpb produces for "data_point_groups":[null] - into an
   empty group without data id.  That chunk encoded and its encoding was rejected (by the former and by
   the current decoder); the former term is not in the relation that the stability proof rests on. *)
Theorem c12_f24_former_term :
  (exists m p', eval p_chunk_before_f24 f24_chunk = Ok m /\ eval w_chunk m = Ok p' /\
                eval p_chunk_before_f24 p' = Err /\ eval p_chunk p' = Err) /\
  ~ back_pairP p_chunk_before_f24 w_chunk.
Proof. exact (conj f24_former_term_refuted back_pair_former_term_fails). Qed.
Print Assumptions c12_f24_former_term.

(* the current decoder rejects the nil group *)
Theorem c12_f24_repaired :
  eval p_chunk f24_chunk = Panic /\
  model_decode true (Some (VOneof 20 (VStruct [VInt 0; f24_chunk; VList []; VNil]))) = Err.
Proof. exact f24_now_rejected. Qed.
Print Assumptions c12_f24_repaired.

(* non-vacuity of the hypotheses of c12_reencode_stable: the 39 full structures satisfy them *)
Example c12_reencode_hypotheses_satisfiable :
  forallb (fun p => bdom p2w_msg p && is_ok (eval p2w_msg p)) full_protos = true.
Proof. vm_compute. reflexivity. Qed.

(* systematic search for structures of the F24 kind (a nil element accepted and then unstable).
   [full_protos] are proto structures derived from the backward conversion term itself (every
   sub-message present, two elements in every list and map, one structure per oneof alternative: 39),
   all accepted and re-encoding to themselves; [nil_enum] replaces ONE list element or ONE map value by
   nil, at every position of every message type (62 structures).  None is accepted-but-unstable; the 8
   nil data point groups are rejected; the only accepted ones are nil values of the upstream alias
   table of a downstream chunk ack (they become all-zero upstream infos, stable); every other nil
   element / value is rejected (converter panic, recovered). *)
Theorem c12_nil_positions :
  forallb (fun p => match eval p2w_msg p with Ok m => reencodes m | _ => false end) full_protos = true /\
  List.length full_protos = 39%nat /\ List.length nil_enum = 62%nat /\
  forallb (fun p => negb (accepted_unstable p)) nil_enum = true /\
  List.length (filter has_nil_group nil_enum) = 8%nat /\
  forallb (fun p => negb (has_nil_group p) || negb (is_ok (eval p2w_msg p))) nil_enum = true /\
  forallb (fun p => match eval p2w_msg p with
                    | Ok _ => match p with VOneof 23 _ => true | _ => false end
                    | _ => true end) nil_enum = true.
Proof. exact nil_enumeration. Qed.
Print Assumptions c12_nil_positions.

(* the judge: an observation of the real decoder that agrees with the model ([fuzz_corr], evaluated by
   h-fuzz on every input) satisfies the safety part of the property predicate - no panic escaped, the
   too-large error exactly above a non-zero maximum and before decoding, otherwise Transport.Read
   yields a message exactly when DecodeFrom does *)
Theorem c12_corr_implies_safe : forall c, fuzz_corr c = true -> fuzz_ok_safe c = true.
Proof. exact fuzz_corr_safe. Qed.
Print Assumptions c12_corr_implies_safe.

(* non-vacuity: hostile structures and their outcomes *)
Example c12_example :
  (* wrong-length uuid in a resume request: error *)
  eval p2w_msg (VOneof 5 (VStruct [VInt 1; VBytes [1%N; 2%N]; VNil])) = Err /\
  (* unknown result code number: error *)
  eval p2w_msg (VOneof 2 (VStruct [VInt 999; VBytes []; VNil])) = Err /\
  (* absent oneof: error *)
  eval p2w_msg VNil = Err /\
  (* wrong-length uuid in an ack's alias table: panic inside the converter (uuid.Must), recovered *)
  eval p2w_msg (VOneof 23 (VStruct [VInt 0; VInt 0; VList []; VMap [(1, VStruct [VBytes []; VBytes [9%N]; VBytes []])]; VMap []; VNil])) = Panic /\
  model_decode true (Some (VOneof 23 (VStruct [VInt 0; VInt 0; VList []; VMap [(1, VStruct [VBytes []; VBytes [9%N]; VBytes []])]; VMap []; VNil]))) = Err /\
  (* a priority above 255 is truncated on decode and the result is stable *)
  (exists m, eval p2w_msg (VOneof 25 (VStruct [VInt 1; VOneof 0 (VStruct [VBytes []; VBytes []; VInt 300; VInt 5; VInt 0]); VNil])) = Ok m /\
             model_roundtrip m = Ok m).
Proof.
  split; [vm_compute; reflexivity|]. split; [vm_compute; reflexivity|]. split; [vm_compute; reflexivity|].
  split; [vm_compute; reflexivity|]. split; [vm_compute; reflexivity|].
  eexists. split; [vm_compute; reflexivity | vm_compute; reflexivity].
Qed.

(* C04 - a downstream acknowledges every consumed chunk exactly once and announces aliases
   consistently.  Property theorems only, over Model/Downstream.v, for every queue capacity,
   pre-registered id list and EVERY history of Arrive / ArriveMeta / Read / ReadMeta / AckTick /
   Close events - in particular every placement of the ack-flush ticks relative to the reads and
   of Close, and every pattern of failing ack sends (AckTick false: the link is down, the stream
   resumes later).  [current] is the code as it is; v ranges over all variants where a theorem
   does not depend on the repaired behaviour, otherwise the needed switch is a premise.  The
   theorems named ..._former_refuted are statements about the code BEFORE the repairs of F4, F14
   and F32.  small_history: fewer than 2^32 events / groups (no generator wraps). *)
From Coq Require Import List NArith Bool.
From Iscp Require Import Lib.ListMap Model.Downstream Proofs.DownstreamProofs.
Import ListNotations.
Open Scope N_scope.

(* Exactly once, with no premise on the sends: the results carried by the acks the transport
   ACCEPTED, in order, followed by the results still buffered, are exactly the (upstream, sequence
   number) pairs of the chunks ReadDataPoints returned, in order - none missing, none twice, none
   invented, none for a refused chunk; likewise the alias announcements.  A failed send keeps its
   content in the buffers. *)
Theorem c04_ack_exactly_once : forall fl cap pre evs,
  small_history pre evs ->
  let r := drun (dinit current fl cap pre) evs in
  ack_results (sent_acks_of (snd r)) ++ b_res (d_bufs (fst r)) = read_results (snd r) /\
  ack_ups (sent_acks_of (snd r)) ++ b_up (d_bufs (fst r)) = minted_ups (snd r) /\
  ack_ids (sent_acks_of (snd r)) ++ b_id (d_bufs (fst r)) = minted_ids (snd r).
Proof. intros fl cap pre evs H. exact (ack_exactly_once current fl cap pre evs H eq_refl). Qed.
Print Assumptions c04_ack_exactly_once.

(* (has_closing evs = false: neither the stream nor its connection has been closed in evs)
   ... and once a flush succeeds (for instance the first one after the stream resumed) nothing is
   pending: every chunk returned so far is acknowledged, every alias issued so far announced,
   whatever sends failed before. *)
Theorem c04_acked_after_successful_flush : forall fl cap pre evs,
  small_history pre (evs ++ [AckTick true]) -> has_closing evs = false ->
  let r := drun (dinit current fl cap pre) (evs ++ [AckTick true]) in
  ack_results (sent_acks_of (snd r)) = read_results (snd r) /\
  ack_ups (sent_acks_of (snd r)) = minted_ups (snd r) /\
  ack_ids (sent_acks_of (snd r)) = minted_ids (snd r).
Proof. intros fl cap pre evs H. exact (acked_after_flush current fl cap pre evs H eq_refl). Qed.
Print Assumptions c04_acked_after_successful_flush.

(* Every chunk returned is returned before Close: after Close ReadDataPoints / ReadMetadata return
   nothing (so nothing can stay unacknowledged behind the final flush). *)
Theorem c04_nothing_returned_after_close : forall fl cap pre evs post,
  let s1 := fst (drun (dinit current fl cap pre) (evs ++ [Close])) in
  read_results (snd (drun s1 post)) = [] /\ consumed_of (snd (drun s1 post)) = [] /\
  returned_metas (metas_of (snd (drun s1 post))) = [].
Proof. intros fl cap pre evs post. exact (no_read_after_close current fl cap pre evs post eq_refl). Qed.
Print Assumptions c04_nothing_returned_after_close.

(* The same when the CONNECTION is closed under the stream (Conn.Close or any connection-level
   close: the stream context is cancelled, no close request is sent): however many chunks are still
   queued, no later ReadDataPoints / ReadMetadata hands anything out, and no ack or close request
   follows - so a chunk can never be returned without a chance of being acknowledged. *)
Theorem c04_no_chunk_after_conn_close : forall fl cap pre evs b post,
  let s1 := fst (drun (dinit current fl cap pre) (evs ++ [ConnClose b])) in
  read_results (snd (drun s1 post)) = [] /\ consumed_of (snd (drun s1 post)) = [] /\
  returned_metas (metas_of (snd (drun s1 post))) = [] /\ acks_of (snd (drun s1 post)) = [] /\
  closereqs_of (snd (drun s1 post)) = 0.
Proof. intros fl cap pre evs b post. exact (no_read_after_conn_close current fl cap pre evs b post eq_refl). Qed.
Print Assumptions c04_no_chunk_after_conn_close.

(* Ack ids: the acks handed to the transport are numbered 1, 2, 3, ... (State().LastIssuedChunkAckID
   is their number); a failed send consumes its id, so the ids of the acks the broker receives
   increase strictly from at least 1, never repeat, and are exactly 1..n when no send failed. *)
Theorem c04_ack_ids : forall v fl cap pre evs,
  small_history pre evs ->
  let r := drun (dinit v fl cap pre) evs in
  seq_from 1 (map ack_id (acks_of (snd r))) = true /\
  map ack_id (acks_of (snd r)) = nseq 1 (length (acks_of (snd r))) /\
  NoDup (map ack_id (acks_of (snd r))) /\
  b_ackid (d_bufs (fst r)) = N.of_nat (length (acks_of (snd r))).
Proof. exact ack_ids_seq. Qed.
Print Assumptions c04_ack_ids.

Theorem c04_ack_ids_received : forall v fl cap pre evs,
  small_history pre evs ->
  strictly_inc 0 (map ack_id (sent_acks_of (snd (drun (dinit v fl cap pre) evs)))) = true /\
  (all_sent evs = true ->
   sent_acks_of (snd (drun (dinit v fl cap pre) evs)) = acks_of (snd (drun (dinit v fl cap pre) evs))).
Proof.
  intros v fl cap pre evs H. exact (conj (sent_ids_increase v fl cap pre evs H) (sent_all evs (dinit v fl cap pre))).
Qed.
Print Assumptions c04_ack_ids_received.

(* No alias is ever given to two things: the upstream aliases the client issues are pairwise
   distinct, and so are the data-id aliases, pre-registered ones included. *)
Theorem c04_alias_injective : forall v fl cap pre evs,
  small_history pre evs ->
  let outs := snd (drun (dinit v fl cap pre) evs) in
  NoDup (keys (minted_ups outs)) /\ NoDup (keys (prereg_table 0 pre ++ minted_ids outs)).
Proof. exact alias_injective. Qed.
Print Assumptions c04_alias_injective.

(* No upstream receives two aliases and (given distinct pre-registered ids) no data id does. *)
Theorem c04_alias_functional : forall fl cap pre evs,
  small_history pre evs ->
  let outs := snd (drun (dinit current fl cap pre) evs) in
  NoDup (vals (minted_ups outs)) /\ (NoDup pre -> NoDup (vals (prereg_table 0 pre ++ minted_ids outs))).
Proof.
  intros fl cap pre evs H.
  exact (conj (proj1 (proj2 (func_init current fl cap pre evs H)) eq_refl) (proj1 (func_init current fl cap pre evs H))).
Qed.
Print Assumptions c04_alias_functional.

(* Announced exactly once: everything that reached ReadDataPoints in full form - every upstream,
   every data id - has an alias among those issued (which by c04_ack_exactly_once are exactly the
   ones announced or still buffered, and by c04_alias_injective / c04_alias_functional are in
   one-to-one correspondence with the things they name). *)
Theorem c04_announce_once : forall fl cap pre evs,
  small_history pre evs ->
  let r := drun (dinit current fl cap pre) evs in
  forall c, In c (consumed_of (snd r)) ->
    (forall id, In id (full_ids (ck_groups c)) -> In id (vals (prereg_table 0 pre ++ minted_ids (snd r)))) /\
    (forall i, ck_up c = UFull i -> In i (vals (minted_ups (snd r)))).
Proof.
  intros fl cap pre evs H r c Hc.
  exact (conj (proj1 (proj2 (proj2 (func_init current fl cap pre evs H)) c Hc))
              (proj2 (proj2 (proj2 (func_init current fl cap pre evs H)) c Hc) eq_refl)).
Qed.
Print Assumptions c04_announce_once.

(* Close order: when Close is called on an open stream, the acks accepted before the close request
   (the final flush included, which is sent) carry every result of every chunk returned so far and
   every alias issued so far; exactly one close request is emitted; no ack and no further close
   request follows it, whatever happens afterwards. *)
Theorem c04_close_order : forall fl cap pre evs post,
  small_history pre (evs ++ Close :: post) -> has_closing evs = false ->
  let s0 := dinit current fl cap pre in
  let o1 := snd (drun s0 evs) in
  exists mid tail,
    snd (drun s0 (evs ++ Close :: post)) = o1 ++ mid ++ [OCloseReq] ++ tail /\
    closereqs_of o1 = 0 /\ closereqs_of mid = 0 /\ closereqs_of tail = 0 /\ acks_of tail = [] /\
    sent_acks_of mid = acks_of mid /\
    ack_results (sent_acks_of (o1 ++ mid)) = read_results o1 /\
    ack_ups (sent_acks_of (o1 ++ mid)) = minted_ups o1 /\
    ack_ids (sent_acks_of (o1 ++ mid)) = minted_ids o1.
Proof. exact (close_order current). Qed.
Print Assumptions c04_close_order.

(* Metadata of any variant (base time, upstream / downstream open, resume, normal or abnormal close)
   never touches the alias tables, the alias generators, the ack buffers or the chunk queue: an
   alias, once issued, stays what it is whatever metadata arrives or is read while chunks of that
   upstream are still queued. *)
Theorem c04_metadata_keeps_aliases : forall s e,
  (exists m, e = ArriveMeta m) \/ (exists p, e = ReadMeta p) ->
  d_tabs (fst (dstep s e)) = d_tabs s /\ d_bufs (fst (dstep s e)) = d_bufs s /\
  d_inbox (fst (dstep s e)) = d_inbox s /\
  reads_of (snd (dstep s e)) = [] /\ acks_of (snd (dstep s e)) = [].
Proof. exact meta_keeps_tables. Qed.
Print Assumptions c04_metadata_keeps_aliases.

(* ---------------- the former code (before the repairs); kept as statements about the model's
   former variants ---------------- *)

(* F4, former code (pointer comparison): the same upstream sent twice in full form, each in its
   own message, was announced under aliases 1 and 2; the code as it is announces it once. *)
Theorem c04_alias_functional_former_refuted :
  exists evs, small_history [] evs /\
    ack_ups (sent_acks_of (snd (drun (dinit former_f4 [] inbox_cap []) evs))) = [(1, 7); (2, 7)] /\
    ack_ups (sent_acks_of (snd (drun (dinit current [] inbox_cap []) evs))) = [(1, 7)].
Proof. exists f4_witness. split; [vm_compute; split; reflexivity|]. exact (conj f4_two_aliases f4_repaired). Qed.
Print Assumptions c04_alias_functional_former_refuted.

(* F14, former code: a failing send lost the results for good; the code as it is sends them with
   the next successful flush under the next ack id (2). *)
Theorem c04_ack_lost_when_send_fails_former_refuted :
  exists evs,
    (let r := drun (dinit former_f14 [] inbox_cap []) evs in
     read_results (snd r) = [(7, 1)] /\ ack_results (sent_acks_of (snd r)) = [] /\ b_res (d_bufs (fst r)) = []) /\
    (let r := drun (dinit current [] inbox_cap []) evs in
     read_results (snd r) = [(7, 1)] /\ sent_acks_of (snd r) = [(2, [(1, 7)], [], [(7, 1)])] /\ b_res (d_bufs (fst r)) = []).
Proof. exists f14_witness. exact (conj f14_result_lost f14_repaired). Qed.
Print Assumptions c04_ack_lost_when_send_fails_former_refuted.

(* the former code still acknowledged exactly once as long as no send failed *)
Theorem c04_ack_exactly_once_former : forall v fl cap pre evs,
  small_history pre evs -> all_sent evs = true ->
  let r := drun (dinit v fl cap pre) evs in
  ack_results (sent_acks_of (snd r)) ++ b_res (d_bufs (fst r)) = read_results (snd r).
Proof. exact ack_exactly_once_former. Qed.
Print Assumptions c04_ack_exactly_once_former.

(* F32, former code: a chunk still queued at Close and handed out by a later ReadDataPoints was
   never acknowledged, whatever happened afterwards; the code as it is answers ErrStreamClosed. *)
Theorem c04_read_after_close_former_refuted :
  exists evs,
    (forall later,
      let r := drun (dinit former_f32 [] inbox_cap []) (evs ++ later) in
      exists tail, read_results (snd r) = [(7, 1); (7, 2)] ++ tail /\ ack_results (acks_of (snd r)) = [(7, 1)]) /\
    reads_of (snd (drun (dinit current [] inbox_cap []) evs)) =
      [(Some (1, 7, []), 0, [(1, 7)], []); (None, 4, [], [])].
Proof. exists rac_witness. exact (conj read_after_close_unacked rac_repaired). Qed.
Print Assumptions c04_read_after_close_former_refuted.

(* non-vacuity: two upstreams and three data ids, one pre-registered; the same upstream in full
   form twice; a failed send in the middle (its id 2 is consumed, its content is re-sent under id 3);
   Close with a result and an announcement pending *)
Example c04_example :
  let evs := [Arrive (mkChunk 1 (UFull 7) 1 [(DFull 5, [(1,11,3)]); (DFull 6, [])]);
              Arrive (mkChunk 2 (UFull 8) 1 [(DAlias 1, [(2,22,1)])]);
              Read false; AckTick true; AckTick true; Read false; AckTick false;
              Arrive (mkChunk 3 (UFull 7) 2 [(DFull 9, [])]); Read false; Close; AckTick true] in
  let r := drun (dinit current [0; 1; 0] inbox_cap [4]) evs in
  small_history [4] evs /\
  sent_acks_of (snd r) =
    [(1, [(1,7)], [(2,5); (3,6)], [(7,1)]);
     (3, [(2,8)], [(4,9)], [(8,1); (7,2)])] /\
  map ack_id (acks_of (snd r)) = [1; 2; 3] /\
  closereqs_of (snd r) = 1 /\ acks_before_close (snd r) = acks_of (snd r) /\
  b_res (d_bufs (fst r)) = [].
Proof. vm_compute. repeat split; reflexivity. Qed.

(* C18 - the reconnectable transport redials without losing, duplicating or reordering writes.
   Property theorems only, over Model/Reconnect.v; each is closed by [exact] of a lemma of
   Proofs/ReconnectProofs.v.  [rc_new c = Some st] says Dial succeeded for configuration c: ANY
   redial budget, ANY script of dial outcomes (dial error / connection whose handshake read
   fails / connection with any write capacity) and either behaviour once the script is used up.
   Histories are ARBITRARY lists of events: batches of queued writes of any number of writers,
   a Close with a write in flight and more queued, deliveries (data, ping), read failures
   (abnormal, normal close), Read calls started and joined at any distance, Close. *)
From Coq Require Import List NArith Bool Arith.
From Iscp Require Import Lib.ListMap Model.Reconnect Proofs.ReconnectProofs.
Import ListNotations.
Open Scope N_scope.

(* Exactly once, in order.  After any history, the concatenation over the successive underlying
   connections (in creation order) of the writes each one accepted IS the list of the payloads
   whose Write returned nil (and of the pongs that answered pings), in the order they were
   handed to the queue: nothing lost, nothing duplicated, nothing reordered, and no connection
   accepts anything once a later one has (the logs are segments of one list). *)
Theorem c18_exactly_once_in_order : forall c st evs,
  rc_new c = Some st ->
  concat (map i_log (n_incs (rs_net (fst (rrun st evs))))) =
  accepted_stream (combine evs (snd (rrun st evs))).
Proof. exact once_in_order_run. Qed.
Print Assumptions c18_exactly_once_in_order.

(* One Write, step form: a Write that returns nil appends its payload to exactly the
   accepted stream above, a Write that fails appends nothing. *)
Theorem c18_write_once : forall st bs,
  Inv st ->
  logs (rs_net (fst (write_one st bs))) =
  logs (rs_net st) ++ (match snd (write_one st bs) with WOk => [bs] | _ => [] end).
Proof. intros st bs H. exact (proj1 (proj2 (proj2 (proj2 (write_one_spec st bs H))))). Qed.
Print Assumptions c18_write_once.

(* Redial parameters.  Every dial attempt ever made carries the one transport id; the attempts
   of Dial (the failures at the head of the script and the first success) have the Reconnect
   flag clear and every later attempt - every redial - has it set. *)
Theorem c18_redial_params : forall c st evs,
  rc_new c = Some st ->
  (exists k, n_dials (rs_net (fst (rrun st evs))) =
             repeat (rc_tid c, false) (S (head_fails (rc_script c))) ++ repeat (rc_tid c, true) k) /\
  dials_ok (rc_tid c) (S (head_fails (rc_script c))) (n_dials (rs_net (fst (rrun st evs)))) = true.
Proof. intros c st evs H. split; [exact (run_dials c st evs H) | exact (run_dials_ok c st evs H)]. Qed.
Print Assumptions c18_redial_params.

(* A redial round that succeeds replaces the connection: the old one has been closed, the new
   current one is a later, fresh, open connection. *)
Theorem c18_redial_replaces : forall b tid th n old,
  nth_error (n_incs n) (n_cur n) = Some old ->
  snd (reconnect b tid th n) = true ->
  let n' := fst (reconnect b tid th n) in
  nth_error (n_incs n') (n_cur n) = Some (inc_close old) /\ (n_cur n < n_cur n')%nat /\
  exists cap, nth_error (n_incs n') (n_cur n') = Some (new_inc cap).
Proof. exact reconnect_replaces. Qed.
Print Assumptions c18_redial_replaces.

(* Pings are filtered and answered; reads continue across connections.  (a) no Read ever
   returns a ping; (b) a ping delivered while the read loop runs is answered by a pong sent
   through the write queue and is not queued for Read; (c) the messages the read loop took
   from whatever connection was current (pings excepted) are exactly: those Read returned, in
   order, followed by what is still held for Read - nothing lost or duplicated by a redial. *)
Theorem c18_ping_filtered : forall c st evs,
  rc_new c = Some st ->
  (forall bs, In (ORead (ROk bs)) (snd (rrun st evs)) -> is_ping bs = false) /\
  arrivals st evs = reads_of (snd (rrun st evs)) ++ held (fst (rrun st evs)).
Proof. intros c st evs H. split; [intros bs; exact (reads_never_ping c st evs bs H) | exact (reads_fifo c st evs H)]. Qed.
Print Assumptions c18_ping_filtered.

Theorem c18_ping_answered : forall st bs,
  reading st = true -> is_ping bs = true ->
  exists ok, snd (rstep st (Deliver bs)) = OPong ok /\
             rs_readq (fst (rstep st (Deliver bs))) = rs_readq st /\
             (ok = true <-> snd (write_one st pong) = WOk).
Proof. exact ping_answered. Qed.
Print Assumptions c18_ping_answered.

(* No caller blocks.  (a) in no history does any Write stay blocked (in particular the write
   loop never ends without cancelling the context - F8 - and the model's fuel never runs out);
   (b) at any point of any history a Read is left waiting only while the context is not
   cancelled, the read loop runs and nothing is queued; (c) the context is cancelled whenever
   Close was called or a Write / a pong failed (the write side exhausted its budget), and only
   then or when a read failure was not survived (over_of'); it stays cancelled, and from then
   on every Write fails at once and every Read returns; (d) a read failure the read loop does
   not survive ends it for good and from then on every Read returns - and when it was the
   budget that was exhausted (not a normal close) the context is cancelled too, so every later
   Write fails (F33, fixed). *)
Theorem c18_no_block_write : forall c st evs rs,
  rc_new c = Some st -> In (OBatch rs) (snd (rrun st evs)) -> ~ In WBlocked rs.
Proof. exact no_write_blocks. Qed.
Print Assumptions c18_no_block_write.

Theorem c18_no_block_read : forall c st evs,
  rc_new c = Some st ->
  let fin := fst (rrun st evs) in
  snd (rstep fin ReadJoin) = ORead RBlocked ->
  rs_cancel fin = false /\ rs_rdead fin = false /\ rs_readq fin = [].
Proof. exact read_blocks_only_live. Qed.
Print Assumptions c18_no_block_read.

Theorem c18_no_block : forall c st evs,
  rc_new c = Some st ->
  let fin := fst (rrun st evs) in
  (existsb over_of (combine evs (snd (rrun st evs))) = true -> rs_cancel fin = true) /\
  (rs_cancel fin = true -> existsb over_of' (combine evs (snd (rrun st evs))) = true) /\
  (rs_cancel fin = true ->
     (forall e, rs_cancel (fst (rstep fin e)) = true) /\
     (forall bs, write_one fin bs = (fin, WErr)) /\
     (forall ws, snd (rstep fin (Batch ws)) = OBatch (map (fun _ => WErr) ws)) /\
     rs_pr fin <> PWait /\
     (forall take, rs_pr fin = PNone -> exists r, rs_pr (read_start fin take) = PDone r /\ r <> RBlocked)) /\
  (rs_rdead fin = true ->
     (forall e, rs_rdead (fst (rstep fin e)) = true) /\ rs_pr fin <> PWait /\
     (forall take, rs_pr fin = PNone -> exists r, rs_pr (read_start fin take) = PDone r /\ r <> RBlocked)).
Proof.
  intros c st evs H fin.
  destruct (rc_new_spec c st H) as (Hi & _ & _ & _ & C0 & _).
  destruct (cancel_run evs st Hi) as (X1 & X2). rewrite C0 in X1, X2. cbn [orb] in X1, X2.
  split; [exact X1|]. split; [exact X2|]. split.
  - exact (after_cancel c st evs H).
  - exact (after_rdead c st evs H).
Qed.
Print Assumptions c18_no_block.

(* Close is final whatever the underlying connection's close reports.  The Close event carries
   the underlying outcome [ce] (CloseWithStatus of the current connection returns an error or
   not): the state after Close is the same for both, the context is cancelled, only the value
   handed back to the caller differs; after any history containing a Close (alone or with
   writes in flight) the context is cancelled; and once it is cancelled no event makes a dial
   attempt any more (so nothing is dialled after Close). *)
Theorem c18_close_cancels_regardless : forall st s ce,
  fst (rstep st (CloseE s ce)) = do_close st s /\ snd (rstep st (CloseE s ce)) = OClose ce /\
  rs_cancel (fst (rstep st (CloseE s ce))) = true /\
  (forall ws, fst (rstep st (BatchClose ws s ce)) = do_close st s).
Proof. exact close_outcome_irrelevant. Qed.
Print Assumptions c18_close_cancels_regardless.

Theorem c18_close_final : forall c st evs,
  rc_new c = Some st ->
  closed_trace (combine evs (snd (rrun st evs))) = true ->
  rs_cancel (fst (rrun st evs)) = true /\
  forall e, n_dials (rs_net (fst (rstep (fst (rrun st evs)) e))) = n_dials (rs_net (fst (rrun st evs))).
Proof.
  intros c st evs H CT. pose proof (closed_cancelled c st evs H CT) as C.
  split; [exact C | intros e; exact (no_dial_after_cancel _ e C)].
Qed.
Print Assumptions c18_close_final.

Theorem c18_read_failure_ends_reader : forall st normal cls,
  Inv st -> reading st = true ->
  snd (rstep st (ReadFail normal cls)) = OReadFail false -> rs_rdead (fst (rstep st (ReadFail normal cls))) = true.
Proof. exact read_fail_ends_reader. Qed.
Print Assumptions c18_read_failure_ends_reader.

(* Only the peer's NORMAL close ends the reader without a redial.  A read failure carrying any
   other close status (going away, abnormal, internal error, plain closed, none) is handled
   exactly like an abrupt one: with a redial round that succeeds the read loop goes on on the
   new connection (c18_redial_replaces), Reads keep what they held; and the reader can stop
   being live at a read failure only through the normal close or a failed round. *)
Theorem c18_read_failure_status_irrelevant : forall st cls cls',
  rstep st (ReadFail false cls) = rstep st (ReadFail false cls').
Proof. exact read_fail_status_irrelevant. Qed.
Theorem c18_non_normal_read_failure_redials : forall st cls,
  Inv st -> reading st = true ->
  snd (reconnect (rs_budget st) (rs_tid st) (rs_tailhs st) (rs_net st)) = true ->
  let r := rstep st (ReadFail false cls) in
  snd r = OReadFail true /\ reading (fst r) = true /\
  rs_net (fst r) = fst (reconnect (rs_budget st) (rs_tid st) (rs_tailhs st) (rs_net st)) /\
  rs_readq (fst r) = rs_readq st /\ rs_pr (fst r) = rs_pr st.
Proof. exact non_normal_read_failure_redials. Qed.
Theorem c18_reader_ends_only : forall st normal cls,
  Inv st -> reading st = true -> reading (fst (rstep st (ReadFail normal cls))) = false ->
  normal = true \/ snd (reconnect (rs_budget st) (rs_tid st) (rs_tailhs st) (rs_net st)) = false.
Proof. exact reader_ends_only. Qed.
Print Assumptions c18_read_failure_status_irrelevant.
Print Assumptions c18_non_normal_read_failure_redials.
Print Assumptions c18_reader_ends_only.

Theorem c18_read_side_exhaustion_cancels : forall st cls,
  Inv st -> reading st = true ->
  snd (rstep st (ReadFail false cls)) = OReadFail false ->
  rs_cancel (fst (rstep st (ReadFail false cls))) = true /\
  forall bs, snd (write_one (fst (rstep st (ReadFail false cls))) bs) = WErr.
Proof. exact read_side_exhaustion_cancels. Qed.
Print Assumptions c18_read_side_exhaustion_cancels.

(* Every trace the model can produce satisfies the predicate that judges the implementation's
   traces (exactly once in order, failure and read discipline incl. "no Write returns nil once
   either side has exhausted its budget", redial parameters) - for every configuration and
   every history, without exception. *)
Theorem c18_model_satisfies_predicate : forall c evs, rc_ok (model_case c evs) = true.
Proof. exact model_satisfies_predicate. Qed.
Print Assumptions c18_model_satisfies_predicate.

(* Regression of finding F33 (fixed): the read side exhausts its budget, Read returns the
   reconnect error, and the later Write - which used to start a fresh round of attempts and
   return nil - fails; the case is judged 0. *)
Theorem c18_f33_regression :
  rk_outs (model_case f33_cfg f33_evs) = [OReadFail false; OUnit; ORead RErr; OBatch [WErr]] /\
  rc_judge (model_case f33_cfg f33_evs) = 0.
Proof. exact f33_regression. Qed.
Print Assumptions c18_f33_regression.

(* non-vacuity: budget 2; the first connection accepts one write, the redial meets a dial error,
   then a connection whose handshake fails (budget used up: the next Write and the queued one
   fail); before that: three writers, a ping answered on the second connection, a pending Read
   resolved by a delivery. *)
Example c18_example :
  let c := mkRC 2 1 [DOk false (Some 1); DFail; DOk true (Some 3); DFail; DOk false None] false in
  match rc_new c with
  | Some st =>
      let evs := [Batch [(1, [1]); (2, [2])]; ReadStart false; Deliver ping; Deliver [9]; ReadJoin;
                  Batch [(3, [3]); (1, [4]); (2, [5])]; ReadStart false; ReadJoin] in
      let r := rrun st evs in
      snd r = [OBatch [WOk; WOk]; OUnit; OPong true; OUnit; ORead (ROk [9]);
               OBatch [WOk; WErr; WErr]; OUnit; ORead RErr]
      /\ map i_log (n_incs (rs_net (fst r))) = [[[1]]; [[2]; pong; [3]]; []]
      /\ n_dials (rs_net (fst r)) = [(1, false); (1, true); (1, true); (1, true); (1, true)]
      /\ rc_judge (model_case c evs) = 0
  | None => False
  end.
Proof. vm_compute. repeat split; reflexivity. Qed.

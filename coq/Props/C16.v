(* C16 - end-to-end calls and replies reach exactly the caller they belong to.
   Property theorems only, over the e2e half of Model/Correlate.v (iscp/e2e.go SendCall,
   SendReplyCall, SendCallAndWaitReplayCall, ReceiveCall, ReceiveReplyCall; iscp/conn.go
   readUpstreamCallAckLoop, readDownstreamCallLoop), for EVERY history of ECall / EAck / EIn /
   EWake / ECancel / EClose / ESeeClosed / ERecvCall / ERecvReply events: any number of concurrent
   callers, acks and replies in any order (reply before ack, duplicated acks, acks and replies for
   ids nobody waits for, negative acks), contexts ending at any point, the connection closing at
   any point.  A reconnect changes nothing in the modelled state (the ack and reply maps belong to
   iscp.Conn, not to the wire connection), so it is not an event.
   Third-party behaviour: uuid.NewString() never repeats - the Section hypothesis [fresh_ids]. *)
From Coq Require Import List NArith Bool.
From Iscp Require Import Lib.ListMap Model.Correlate Proofs.CorrelateProofs.
Import ListNotations.
Open Scope N_scope.

Section C16.
  (* the history; the id carried by the i-th ECall is what randomString() returned to caller i *)
  Variable evs : list eev.
  Hypothesis fresh_ids : NoDup (call_ids evs).

  (* Fresh ids: the UpstreamCall messages written to the wire carry pairwise distinct call ids. *)
  Theorem c16_fresh_ids : NoDup (map fst (e_sent (erun einit evs))).
  Proof. exact (fresh_ids_sent evs fresh_ids). Qed.

  (* Own ack / own reply (refinement to one caller alone): every caller that starts on an open
     connection has, in the full model with all other callers, acks, replies, cancellations and
     the close present, exactly the status the one-caller specification [espec] computes from the
     acks bearing its own call id, the incoming replies whose request-call id is its own call id,
     its own Wake/Cancel/SeeClosed events and Close. *)
  Theorem c16_own : forall c st,
    espec c evs = Some st -> estatus_of (erun einit evs) (N.of_nat c) = Some st.
  Proof. intros c st. exact (e_own evs c st fresh_ids). Qed.

  (* SendCall / SendReplyCall report the FIRST ack bearing exactly their call id: success iff its
     code is Succeeded, otherwise an error carrying that ack's code and string; the only other
     outcomes are the caller's own context error and connection-closed. *)
  Theorem c16_ack_own : forall c r k id rest,
    espec c evs = Some (EDone r) ->
    e_after_call c false evs = Some (k, id, false, rest) -> k <> KCallWait ->
    r = RCancelled \/ r = RClosed \/
    exists code m, first_ack id rest = Some (code, m) /\ r = ack_result code m.
  Proof. intros c r k id rest H. exact (ack_own evs c r fresh_ids H k id rest). Qed.

  (* SendCallAndWaitReplayCall returns the FIRST incoming reply whose request-call id equals the id
     of the call it sent - never a reply meant for another caller - whatever the order of acks and
     replies. *)
  Theorem c16_reply_own : forall c d,
    espec c evs = Some (EDone (RGotReply d)) ->
    exists k id rest, e_after_call c false evs = Some (k, id, false, rest) /\
                      first_reply id rest = Some d /\ d_req d = id.
  Proof. intros c d. exact (reply_own evs c d fresh_ids). Qed.

  (* Error isolation: the acks (positive or negative) bearing call id i are invisible to every
     caller whose call id is not i: deleting them from the history changes no such caller's result. *)
  Theorem c16_error_isolated : forall i c st,
    espec c evs = Some st ->
    (forall k id cl rest, e_after_call c false evs = Some (k, id, cl, rest) -> id <> i) ->
    estatus_of (erun einit (drop_acks i evs)) (N.of_nat c) = estatus_of (erun einit evs) (N.of_nat c).
  Proof. intros i c st. exact (error_isolated evs i c st fresh_ids). Qed.
End C16.
Print Assumptions c16_fresh_ids.
Print Assumptions c16_own.
Print Assumptions c16_ack_own.
Print Assumptions c16_reply_own.
Print Assumptions c16_error_isolated.

(* The freshness hypothesis is needed: when two callers draw the SAME call id (what a call id
   generator that is not safe for concurrent use produces), the second one is refused with "already
   exist call id" although the broker acknowledged that id - its status is not what its one-caller
   specification says.  The harness therefore checks the premise on the implementation: the call
   ids seen by the broker must be pairwise distinct (c16_ok, first conjunct; id-burst cases). *)
Theorem c16_own_needs_distinct_ids :
  exists evs c st, espec c evs = Some st /\ estatus_of (erun einit evs) (N.of_nat c) <> Some st /\
                   ~ NoDup (call_ids evs).
Proof.
  exists [ECall KCall 7; ECall KCall 7; EAck 7 0 1; EWake 0; EWake 1], 1%nat, (EDone RAcked).
  destruct own_needs_distinct_ids as [H1 [H2 H3]]. split; [exact H1|]. split; [|exact H3].
  cbn [N.of_nat]. change (N.pos (Pos.of_succ_nat 0)) with 1. rewrite H2. discriminate.
Qed.
Print Assumptions c16_own_needs_distinct_ids.

(* Inboxes: as long as no more than 1024 calls (replies) ever arrived, what ReceiveCall
   (ReceiveReplyCall) has handed out followed by what is still queued is exactly what arrived: each
   once, unmodified, in arrival order.  No freshness hypothesis. *)
Theorem c16_inbox_once_in_order : forall (reply : bool) evs,
  N.of_nat (length (incoming reply evs)) <= inbox_cap ->
  let s := erun einit evs in
  (if reply then e_rreplies s ++ e_replies s else e_rcalls s ++ e_calls s) = incoming reply evs.
Proof. exact inbox_once_in_order. Qed.
Print Assumptions c16_inbox_once_in_order.

(* The dispatch loops' `ch <- ack // nonblocking`, `ch <- dc // non blocking` never block: for
   every history, with or without fresh ids. *)
Theorem c16_dispatch_never_blocks : forall evs, e_stuck (erun einit evs) = false.
Proof. exact e_never_blocks. Qed.
Print Assumptions c16_dispatch_never_blocks.

(* non-vacuity: three callers in flight with fresh ids 11, 12, 13; caller 1 (call-and-wait) gets its
   reply BEFORE its ack, caller 0 gets a negative ack, an ack and a reply for unknown ids and a
   duplicated ack arrive, two calls come in and are received in order *)
Example c16_example :
  let evs := [ECall KCall 11; ECall KCallWait 12; ECall (KReply 77) 13;
              EIn (501, 12, 42); EWake 1; EAck 99 0 1; EIn (502, 98, 43); EIn (503, 0, 44);
              EAck 11 13 7; EWake 0; EAck 12 0 8; EWake 1; EWake 1; EAck 11 0 9;
              EIn (504, 0, 45); EAck 13 0 10; EWake 2; ERecvCall; ERecvCall; ERecvReply] in
  let s := erun einit evs in
  NoDup (call_ids evs) /\
  map (estatus_of s) [0; 1; 2] =
    [Some (EDone (RFailed 13 7)); Some (EDone (RGotReply (501, 12, 42))); Some (EDone RAcked)] /\
  map (fun c => espec c evs) [0; 1; 2]%nat = map (estatus_of s) [0; 1; 2] /\
  e_sent s = [(11, 0); (12, 0); (13, 77)] /\
  e_rcalls s = [(503, 0, 44); (504, 0, 45)] /\ e_rreplies s = [(501, 12, 42)] /\ e_replies s = [(502, 98, 43)].
Proof.
  split; [repeat constructor; cbn; intuition discriminate|]. vm_compute. repeat split.
Qed.

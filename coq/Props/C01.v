(* C01 - an upstream delivers every accepted data point exactly once, intact and accounted.
   Property theorems only, over Model/Upstream.v, for EVERY flush policy, every alias table
   handed out in the open response, and every history of Write / Tick / Flush / alias
   announcements / results / Close events (any interleaving is a list of such events). *)
From Coq Require Import List NArith Bool.
From Iscp Require Import Lib.ListMap Model.Upstream Proofs.UpstreamProofs.
Import ListNotations.
Open Scope N_scope.

(* Conservation: for every data id, the points of that id in the chunks (in sequence-number
   order, ids decoded) followed by the points still buffered are exactly the points of the
   accepted writes of that id, in order: nothing lost, duplicated, altered or re-attributed. *)
Theorem c01_conservation : forall pol rev0 ops id,
  let r := urun (uinit pol rev0) ops in
  chunks_pts id (chunks_of (r_outs r)) ++ buf_pts id (u_buf (r_state r)) = accepted_pts id ops (r_rets r).
Proof. intros pol rev0 ops id. exact (conservation id ops (uinit pol rev0) (inv_init pol rev0)). Qed.
Print Assumptions c01_conservation.

(* Numbering: the chunks are numbered 1..N without gaps or reuse, N is the last issued sequence
   number, and the total counter is the number of points in the chunks. *)
Theorem c01_numbering : forall pol rev0 ops,
  let r := urun (uinit pol rev0) ops in
  seqs_from 1 (chunks_of (r_outs r)) = true /\
  u_seq (r_state r) = N.of_nat (length (chunks_of (r_outs r))) /\
  u_total (r_state r) = sum_counts (chunks_of (r_outs r)).
Proof. intros pol rev0 ops. exact (run_numbering ops (uinit pol rev0) (inv_init pol rev0)). Qed.
Print Assumptions c01_numbering.

(* Close: at most one close request is emitted; it reports N (the number of chunks cut before
   it) and the exact point total of those chunks; no chunk is emitted after it. *)
Theorem c01_close_totals : forall pol rev0 ops,
  let r := urun (uinit pol rev0) ops in
  closereq_of (r_outs r) = [] \/
  exists pre post t q,
    r_outs r = pre ++ post /\ closereq_of pre = [(t, q)] /\ closereq_of post = [] /\
    chunks_of post = [] /\
    q = 0 + N.of_nat (length (chunks_of pre)) /\
    t = 0 + sum_counts (chunks_of pre) /\
    closereq_of (r_outs r) = [(t, q)].
Proof. intros pol rev0 ops. exact (run_close ops (uinit pol rev0) (inv_init pol rev0) eq_refl). Qed.
Print Assumptions c01_close_totals.

(* Ack hook: the hook log is exactly the received results, in order, each once per reception,
   with the broker's code. *)
Theorem c01_ack_hook : forall pol rev0 ops,
  ackhooks_of (r_outs (urun (uinit pol rev0) ops)) = results_of_ops ops.
Proof. intros. apply ack_hooks. Qed.
Print Assumptions c01_ack_hook.

(* Send hook: one announcement per chunk, same sequence number, same points, ids in full form. *)
Theorem c01_send_hook : forall pol rev0 ops,
  sendhooks_of (r_outs (urun (uinit pol rev0) ops)) =
  map hook_of_chunk (chunks_of (r_outs (urun (uinit pol rev0) ops))).
Proof. intros. apply send_hooks. Qed.
Print Assumptions c01_send_hook.

(* Alias substitution: a group is transmitted in alias form only with an alias the broker
   handed out (open response or an earlier acknowledgement) for exactly that data id - so a
   broker decoding through its own table recovers the right id. *)
Theorem c01_alias_sound : forall pol rev0 ops c,
  In c (chunks_of (r_outs (urun (uinit pol rev0) ops))) ->
  groups_sound (handed rev0 ops) (snd (fst c)).
Proof. exact alias_sound_init. Qed.
Print Assumptions c01_alias_sound.

(* non-vacuity: two data ids, an alias handed out mid-stream and used by a later chunk *)
Example c01_example :
  let ops := [Write 1 [(1,11,3)]; Write 2 [(2,22,0); (3,33,6)]; Flush; Alias [(7,1)]; Results [(1,1)];
              Write 1 [(4,44,1)]; Write 2 []; Flush; Results [(2,1)]; Close] in
  let r := urun (uinit PNone []) ops in
  chunks_of (r_outs r) =
    [(1, [(1, (false, 0), [(1,11,3)]); (2, (false, 0), [(2,22,0); (3,33,6)])], [1; 2]);
     (2, [(1, (true, 7), [(4,44,1)]); (2, (false, 0), [])], [2])]
  /\ closereq_of (r_outs r) = [(4, 2)] /\ ackhooks_of (r_outs r) = [(1,1); (2,1)].
Proof. vm_compute. repeat split. Qed.

(* order, not multiset: c01_conservation is an equality of LISTS for arbitrary points, so write order
   per data id is kept whatever the elapsed times are.  Elapsed times 30,10,20 then 7,3 (decreasing,
   as the h-upstream ElMode cases write them): delivered in exactly that order. *)
Example c01_order_example :
  let ops := [Write 1 [(30,1,1); (10,2,1); (20,3,1)]; Write 2 [(5,9,0)]; Write 1 [(7,4,1); (3,5,1)]; Flush] in
  let r := urun (uinit PNone []) ops in
  chunks_pts 1 (chunks_of (r_outs r)) = [(30,1,1); (10,2,1); (20,3,1); (7,4,1); (3,5,1)].
Proof. vm_compute. reflexivity. Qed.

(* C02 - a reliable upstream loses nothing across disconnect and resume.  Property theorems only,
   over Model/Resume.v (stream model of Model/Upstream + the stream's wire connection + sent
   storage + status + waiters + resend queue + broker ledger), the model of the code AS IT IS NOW
   (payload-keeping default storage, cancellation removes nothing from the storage, a closed
   stream always delivers its closed event), for a reliable stream, for EVERY flush policy,
   initial alias table and EVERY event list: any positions of any number of transport failures
   (loud or silent) relative to writes / flushes / acks / resume exchanges, any acknowledged
   subset, writes before, during and after outages, the stream noticing before or after the
   redial, any resend order, any sequence of resume outcomes (success, conflict, refusal, cut).
   [keeping cfg] = payload-keeping storage and QoS reliable. *)
From Coq Require Import List NArith Bool.
From Iscp Require Import Lib.ListMap Model.Upstream Model.Storage Model.Resume
  Proofs.UpstreamProofs Proofs.ResumeProofs.
Import ListNotations.
Open Scope N_scope.

(* No loss.  For every history without an ack timeout (clean; link failures, cancellations and
   resume outcomes are unrestricted), in the settled end state (every stored chunk has been
   acknowledged):
   (1) for every data id, the points of the accepted writes are exactly the points of that id in
       the chunks cut, in sequence-number order, followed by what is still buffered, and
   (2) every chunk cut is in the broker's union ledger under the sequence number it was first
       given, with its original content (payload digests and lengths included). *)
Theorem c02_no_loss : forall cfg pol rev0 evs id,
  keeping cfg -> clean evs = true ->
  let r := rrun cfg (rinit pol rev0) evs in
  settled (fst r) ->
  racc_pts id evs (snd r) = chunks_pts id (z_cut (fst r)) ++ buf_pts id (u_buf (z_u (fst r))) /\
  forall c, In c (z_cut (fst r)) -> exists i, In (i, cseq c, decode_chunk c) (z_ledger (fst r)).
Proof. exact c02_no_loss_l. Qed.
Print Assumptions c02_no_loss.

(* A sequence number is never reused for different content: any two receptions (in any
   incarnations) under one sequence number have equal decoded content - for ALL histories. *)
Theorem c02_seq_functional : forall cfg pol rev0 evs i i' seq g g',
  keeping cfg ->
  let s := fst (rrun cfg (rinit pol rev0) evs) in
  In (i, seq, g) (z_ledger s) -> In (i', seq, g') (z_ledger s) -> g = g'.
Proof. exact c02_seq_functional_l. Qed.
Print Assumptions c02_seq_functional.

(* Stored-set invariant, for ALL histories: the stream's stored chunks are chunks that were cut,
   with the content that was cut; every chunk cut is still stored or was removed by a waiter that
   obtained a result or an ack timeout; a removal caused by a result concerns a chunk the broker
   received.  Without ack timeouts every removal is caused by a result: no disconnect, cancellation
   or resume outcome ever drops a stored chunk. *)
Theorem c02_stored_invariant : forall cfg pol rev0 evs,
  keeping cfg ->
  let s := fst (rrun cfg (rinit pol rev0) evs) in
  (forall seq g, In (seq, g) (stream_of the_sid (z_sent s)) -> In (seq, g) (cutpairs s)) /\
  (forall seq g, In (seq, g) (cutpairs s) ->
     lookup seq (stream_of the_sid (z_sent s)) = Some g \/ In seq (map fst (z_removed s))) /\
  (forall seq, In (seq, 0) (z_removed s) -> ledger_has seq (z_ledger s) = true) /\
  (clean evs = true -> forall seq why, In (seq, why) (z_removed s) -> why = 0).
Proof. exact c02_stored_invariant_l. Qed.
Print Assumptions c02_stored_invariant.

(* Retransmission.  (a) A successful resume puts the stream on the new connection, counts one
   resume request (carrying the original stream id: the model has one id) and queues EVERY chunk
   that is stored - i.e. unacknowledged - for resending. *)
Theorem c02_resume_queues_all : forall cfg pol rev0 evs,
  keeping cfg ->
  let s := fst (rrun cfg (rinit pol rev0) evs) in
  z_status s = SResuming -> z_avail s = true ->
  let s' := fst (Resume.rstep cfg s (EResume ROk)) in
  z_link s' = LUp /\ z_status s' = SConnected /\ z_resumes s' = z_resumes s + 1 /\
  forall seq g, lookup seq (stream_of the_sid (z_sent s')) = Some g -> lookup seq (z_queue s') <> None.
Proof. exact c02_resume_queues_all_l. Qed.
Print Assumptions c02_resume_queues_all.

(* (b) In every reachable state in which the stream's connection is up and the resend queue is
   empty, every chunk that is still stored has been received by the broker in the CURRENT
   incarnation, with the content that was cut: whatever was unacknowledged at a disconnect is
   transmitted again after the resume (or was acknowledged meanwhile). *)
Theorem c02_retransmit : forall cfg pol rev0 evs,
  keeping cfg ->
  let s := fst (rrun cfg (rinit pol rev0) evs) in
  z_link s = LUp -> z_queue s = [] ->
  forall seq g, lookup seq (stream_of the_sid (z_sent s)) = Some g -> In (z_inc s, seq, g) (z_ledger s).
Proof. exact c02_retransmit_l. Qed.
Print Assumptions c02_retransmit.

(* (c) What is queued for retransmission, and what the broker receives from any transmission, is
   the content originally cut under that sequence number. *)
Theorem c02_retransmit_content : forall cfg pol rev0 evs,
  keeping cfg ->
  let s := fst (rrun cfg (rinit pol rev0) evs) in
  (forall seq g, In (seq, g) (z_queue s) -> In (seq, g) (cutpairs s)) /\
  (forall i seq g, In (i, seq, g) (z_ledger s) -> In (seq, g) (cutpairs s)).
Proof. exact c02_retransmit_content_l. Qed.
Print Assumptions c02_retransmit_content.

(* Totals, for ALL histories and configurations: every close request the broker receives comes
   from a stream that is then closed for good and carries exactly the number of points in the
   chunks cut and the number of chunks cut; and the accepted points are those plus the points
   still buffered.  (After a successful Close the buffer was flushed: the totals equal what was
   written.) *)
Theorem c02_totals : forall cfg pol rev0 evs,
  let r := rrun cfg (rinit pol rev0) evs in
  (forall t q, In (t, q) (z_closereqs (fst r)) ->
     is_closed (z_status (fst r)) = true /\ t = sum_counts (z_cut (fst r)) /\ q = N.of_nat (length (z_cut (fst r)))) /\
  racc_count evs (snd r) = sum_counts (z_cut (fst r)) + buf_count (u_buf (z_u (fst r))).
Proof. exact c02_totals_l. Qed.
Print Assumptions c02_totals.

(* The no-payload storage class (inmemSentStorageNoPayload - the connection's default BEFORE /repo
   f1380ca, finding F1; still selectable by injection): seq |-> content is refuted - after one
   outage the broker holds two different contents under sequence number 1.  The harness probes
   the library's default storage on every run and fails if it behaves like this again. *)
Theorem c02_seq_functional_refuted_nopayload_storage :
  exists evs g g', g <> g' /\
    let s := fst (rrun cfg_nopayload (rinit PNone []) evs) in
    In (0, 1, g) (z_ledger s) /\ In (1, 1, g') (z_ledger s) /\ settled s.
Proof. exact c02_seq_functional_refuted_nopayload_storage_l. Qed.
Print Assumptions c02_seq_functional_refuted_nopayload_storage.

(* non-vacuity: two chunks, the second unacknowledged when the link dies silently; a write cut by
   the final flush at cancellation; conflict then success; both stored chunks retransmitted (in
   map order 3, 2) and acknowledged; a further write; clean, settled, all chunks delivered; and a
   resume exchange that is cut closes the stream with a closed event carrying the cause *)
Example c02_example :
  let evs := [EApi (Write 1 [(1,11,3)]); EApi Flush; EApi (Results [(1,1)]);
              EApi (Write 2 [(2,22,1); (3,33,2)]); EApi Flush; ELinkDown true;
              EApi (Write 1 [(4,44,1)]); EDetect; ERedial; EResume RConflict; EResume ROk;
              EResend 3; EApi (Results [(3,1)]); EResend 2; EApi (Results [(2,1)]);
              EApi (Write 2 [(5,55,4)]); EApi Flush; EApi (Results [(4,1)]); EApi Close; ECloseEnd] in
  let r := rrun cfg_keep (rinit PNone []) evs in
  clean evs = true /\
  map (fun e => (fst (fst e), snd (fst e))) (z_ledger (fst r)) = [(0,1); (0,2); (1,3); (1,2); (1,4)] /\
  stream_of the_sid (z_sent (fst r)) = [] /\
  z_closereqs (fst r) = [(5, 4)] /\ z_status (fst r) = SClosedOk /\ z_resumes (fst r) = 2 /\
  let r2 := rrun cfg_keep (rinit PNone []) [EApi (Write 1 [(1,11,3)]); EApi Flush; ELinkDown false; EDetect; ERedial;
                                           ELinkDown false; EResume RCut; EApi (Write 1 [(2,22,1)])] in
  z_status (fst r2) = SClosedErr /\ z_closedev (fst r2) = [true] /\ snd r2 = [0; 0; 0; 0; 0; 0; 0; 1] /\
  (* the transport dies while Close waits for the ack of chunk 1: the stream resumes, chunk 1 is
     retransmitted and acknowledged, and the Close in progress then completes with the right totals *)
  let r3 := rrun cfg_keep (rinit PNone []) [EApi (Write 1 [(1,11,3)]); EApi Flush; EApi Close; ELinkDown false; EDetect; ERedial;
                                           EResume ROk; EResend 1; EApi (Results [(1,1)]); ECloseEnd] in
  z_status (fst r3) = SClosedOk /\ z_closereqs (fst r3) = [(1, 1)] /\ z_closedev (fst r3) = [false] /\
  map (fun e => (fst (fst e), snd (fst e))) (z_ledger (fst r3)) = [(0,1); (1,1)] /\ stream_of the_sid (z_sent (fst r3)) = [].
Proof. vm_compute. repeat split. Qed.

(* C19 - the multi-transport routes writes to the selected member and merges all reads.
   Property theorems only; each is closed by [exact] of a lemma of Proofs/MultiProofs.v.
   [mt_new c = Some st] says NewTransport accepted configuration c; histories h are arbitrary
   lists of events (scheduler emissions of any id incl. non-members and the empty id 0, NIC
   events, poller ticks, writes, member reads and read failures, reads, lookups, closes). *)
From Coq Require Import List NArith Bool Arith Permutation.
From Iscp Require Import Lib.ListMap Model.Multi Proofs.MultiProofs.
Import ListNotations.
Open Scope N_scope.

(* Routing.  After any history h, a Write is handed to exactly the member whose id was emitted
   last by the scheduler among member ids before Close (initially the configured id): [route]
   folds the observed scheduler emissions (OSel) of h.  The caller sees that member's verdict,
   the payload is appended to that member's log and to no other. *)
Theorem c19_routing : forall c st h bs,
  mt_new c = Some st ->
  exists ok,
    snd (mstep (fst (mrun st h)) (Write bs)) =
    OWrite (fst (route (map ms_id (c_members c)) (c_initial c, false) (combine h (snd (mrun st h))))) ok.
Proof. exact routing. Qed.
Print Assumptions c19_routing.

Theorem c19_routing_effect : forall st bs,
  Inv st ->
  exists ok, snd (mstep st (Write bs)) = OWrite (s_cur st) ok /\
    forall id, wlog_of id (fst (mstep st (Write bs))) =
               wlog_of id st ++ (if (id =? s_cur st) && ok then [bs] else []).
Proof. exact write_routed. Qed.
Print Assumptions c19_routing_effect.

(* every member's final log is exactly the sequence of payloads routed to it and accepted *)
Theorem c19_logs : forall c st h,
  mt_new c = Some st -> NoDup (map ms_id (c_members c)) ->
  map (fun m => (m_id m, m_wlog m)) (s_members (fst (mrun st h))) =
  map (fun s => (ms_id s, expected_log (ms_id s) (combine h (snd (mrun st h))))) (c_members c).
Proof. exact final_logs. Qed.
Print Assumptions c19_logs.

(* Reads are merged once, first-in first-out.  The messages returned by Read so far, followed by
   what is still queued, are exactly the messages handed over by live members, in arrival order:
   nothing lost, nothing duplicated, per-member order kept (filter on the member tag), the
   multisets agree. *)
Theorem c19_reads_merged_once : forall c st h,
  mt_new c = Some st ->
  exists ret q,
    arrivals (c_members c) [] false h = ret ++ q /\
    map snd ret = reads_of (snd (mrun st h)) /\
    map snd q = map snd (s_queue (fst (mrun st h))) /\
    (forall i, filter (fun x => fst x =? i) (arrivals (c_members c) [] false h) =
               filter (fun x => fst x =? i) ret ++ filter (fun x => fst x =? i) q) /\
    Permutation (arrivals (c_members c) [] false h) (ret ++ q).
Proof. exact reads_fifo_tagged. Qed.
Print Assumptions c19_reads_merged_once.

(* Close closes every member: after a history containing Close, every member has received one
   close call per Close event - CloseWithStatus with that status if it is a Closer, plain Close
   otherwise - whatever other members' closes returned. *)
Theorem c19_close_all : forall c st h s m',
  mt_new c = Some st -> In (Close s) h -> In m' (s_members (fst (mrun st h))) ->
  m_closes m' = map (close_code (m_closer m')) (close_statuses h) /\ m_closes m' <> [].
Proof. exact close_all_from_new. Qed.
Print Assumptions c19_close_all.

(* The counters are the sums over members of the bytes each member read / accepted. *)
Theorem c19_counters_sum : forall c st h,
  mt_new c = Some st ->
  let fin := fst (mrun st h) in
  snd (mstep fin Counters) =
  OCounters (sum_map (fun m => total_len (m_rlog m)) (s_members fin))
            (sum_map (fun m => total_len (m_wlog m)) (s_members fin)).
Proof. exact counters_sum. Qed.
Print Assumptions c19_counters_sum.

(* ... and, at every observation point, the multi counters are the sums of the members' OWN
   counters (whatever those count: bytes from before the member joined, framing overhead, traffic
   through AsUnreliable) - not a tally kept by the multi transport of the payloads it passed on. *)
Theorem c19_counters_are_member_sums : forall st,
  snd (mstep st Counters) = OCounters (sum_rx (s_members st)) (sum_tx (s_members st)).
Proof. reflexivity. Qed.
Print Assumptions c19_counters_are_member_sums.

(* Unknown ids are harmless.  (a) a configuration whose initial id is not a member (or whose
   map is empty) is rejected; (b) a scheduler emission that is not a member id leaves the state
   untouched; (c) from an accepted configuration no history whatsoever makes any Write,
   AsUnreliable, NegotiationParams (or anything else) panic. *)
Theorem c19_unknown_initial_rejected : forall c,
  has_id (c_initial c) (c_members c) = false -> mt_new c = None /\ (new_class c = 1 \/ new_class c = 2).
Proof. exact new_rejects_non_member. Qed.
Theorem c19_unknown_select_ignored : forall st id, ~ In id (ids st) -> apply_select st id = st.
Proof. exact select_unknown_ignored. Qed.
Theorem c19_unknown_id_harmless : forall c st h,
  mt_new c = Some st -> ~ In OPanic (snd (mrun st h)).
Proof. exact no_panic_from_new. Qed.
Print Assumptions c19_unknown_initial_rejected.
Print Assumptions c19_unknown_select_ignored.
Print Assumptions c19_unknown_id_harmless.

(* The lookups NegotiationParams / AsUnreliable go to the selected member. *)
Theorem c19_lookups_routed : forall st,
  Inv st ->
  snd (mstep st Neg) = ONeg (s_cur st) /\ exists ok, snd (mstep st Unrel) = OUnrel (s_cur st) ok.
Proof. exact lookup_routed. Qed.
Print Assumptions c19_lookups_routed.

(* Every trace the model can produce satisfies the predicate that judges the implementation's
   traces (routing, merged reads, logs, close calls, counters, no panic, no block) - for every
   configuration with distinct member ids and every history. *)
Theorem c19_model_satisfies_predicate : forall c h,
  NoDup (map ms_id (c_members c)) -> multi_ok (model_case c h) = true.
Proof. exact model_satisfies_predicate. Qed.
Print Assumptions c19_model_satisfies_predicate.

(* and every observation the predicate accepts has the first-in first-out merge property *)
Theorem c19_predicate_entails_fifo : forall ms init tr sp',
  spec_run ms (mkSp init false [] [] 0 0) tr = Some sp' ->
  exists rest, map snd (arrivals ms [] false (map fst tr)) = reads_of (map snd tr) ++ rest.
Proof. exact ok_reads_fifo. Qed.
Print Assumptions c19_predicate_entails_fifo.

(* The pollers as written.  RoundRobinPoller cycles through its list (whatever it contains);
   an empty list yields the empty id.  LastUsedPoller returns the current id or the empty id,
   so it never moves the selection (unless the empty id is itself a member). *)
Theorem c19_round_robin : forall ids cur k,
  (cur < length ids)%nat ->
  rr_outs ids cur k = map (fun j => nth ((cur + j) mod length ids) ids 0) (seq 0 k).
Proof. exact rr_round_robin. Qed.
Theorem c19_last_used_inert : forall st, ~ In 0 (ids st) -> apply_select st (lu_get st) = st.
Proof. exact last_used_inert. Qed.
Print Assumptions c19_round_robin.
Print Assumptions c19_last_used_inert.

(* non-vacuity: three members, event scheduler; selections of a member, a non-member and the
   empty id interleaved with writes and reads from two members *)
Example c19_example :
  let c := mkCfg [mkMS 1 true 3 true false false false; mkMS 2 true 3 false true false false;
                  mkMS 3 true 3 true false false false] 1 1 None (Some ECScript) in
  match mt_new c with
  | Some st =>
      let r := mrun st [Write [10]; Select 2; Write [11]; Select 9; Write [12]; Select 0; Neg;
                        MemberRead 3 [20]; MemberRead 1 [21]; Read false; Read false; Counters; Close 1] in
      snd r = [OWrite 1 true; OSel 2; OWrite 2 true; OSel 9; OWrite 2 true; OSel 0; ONeg 2;
               OUnit; OUnit; ORead (Some [20]); ORead (Some [21]); OCounters 2 3; OClose false]
      /\ map m_closes (s_members (fst r)) = [[2]; [0]; [2]]
  | None => False
  end.
Proof. vm_compute. split; reflexivity. Qed.

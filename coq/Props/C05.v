(* C05 - a lost transport is survived: reconnect, fresh token, every stream resumed.
   Property theorems only, over Model/Conn.v.  A history is an arbitrary list of events: link
   failures, keepalive detections, wake-ups of the run loop / of each stream watcher / of each stream
   supervisor / of each request waiting in send(), dial results, broker answers, context ends, user
   calls.  Every interleaving of the library's goroutines is such a list, so "for all event lists"
   is "for all fault sequences, crash points and schedules".  [faithful] is the code AS IT IS NOW
   (after the fix commits 9b8bda8 F5, b47e52f F10, eca7266 F19, 0d5b8e3 supervisor leak, 741ede2 F9);
   [former] is the code before them; [f] ranges over every combination.  The main theorems are about
   [faithful] (or about every [f]) and carry no schedule premise; lemmas about [former] are kept,
   labelled FORMER, as the record of what the repairs changed. *)
From Coq Require Import List NArith Bool.
From Iscp Require Import Model.Conn Proofs.ConnProofs.
Import ListNotations.
Open Scope N_scope.

(* One TokenSource.Token() call per dial attempt, and attempt k carries the token of call k: the
   ConnectRequests seen by the broker are (0,0),(1,1),...; the token log is the same sequence; the
   number of Token() calls equals the number of attempts.  Never a cached token. *)
Theorem c05_token_per_attempt : forall f evs,
  let r := run (init f) evs in
  let o := init_outs ++ snd r in
  connects_of o = iota_pairs (length (connects_of o)) 0 /\
  tokens_of o = map fst (connects_of o) /\
  c_tokens (fst r) = N.of_nat (length (connects_of o)).
Proof. exact tokens_from_init. Qed.
Print Assumptions c05_token_per_attempt.

(* MAIN: every stream resumes, for EVERY schedule.  After ANY history of the code as it is, if the
   connection is up, a stream that is waiting - attached, silently detached by whatever the scheduler
   did, or already handed to its supervisor - is, after one wake-up of its watcher, one of its
   supervisor and the broker's answer ([settle i]), attached to the CURRENT wire connection under its
   own id and direction; unless it already was attached, exactly one resume request (current wire
   connection, original stream, original direction) went out and exactly one resumed event fired.
   No premise on when the watchers ran: the watcher compares the connection generation. *)
Theorem c05_streams_resume : forall evs i s,
  let c := fst (run (init faithful) evs) in
  c_status c = Connected -> writable c = true ->
  find_s i (c_streams c) = Some s -> (s_phase s = SWatch \/ s_phase s = SWaitConn) ->
  exists s', find_s i (c_streams (fst (run c (settle i)))) = Some s' /\
             s_phase s' = SWatch /\ s_held s' = c_gen c /\ s_down s' = s_down s /\
             snd (run c (settle i)) =
               (if match s_phase s with SWatch => s_held s =? c_gen c | _ => false end then []
                else [OResumeReq (c_gen c) i (s_down s); OResumed i]).
Proof. exact streams_resume_now. Qed.
Print Assumptions c05_streams_resume.

(* the same for every state of every configuration that has the generation-comparing watcher *)
Theorem c05_streams_resume_any_state : forall c i s, fix_f9 (c_cfg c) = true ->
  c_status c = Connected -> writable c = true ->
  find_s i (c_streams c) = Some s -> (s_phase s = SWatch \/ s_phase s = SWaitConn) ->
  exists s', find_s i (c_streams (fst (run c (settle i)))) = Some s' /\
             s_phase s' = SWatch /\ s_held s' = c_gen c /\ s_down s' = s_down s /\
             snd (run c (settle i)) =
               (if match s_phase s with SWatch => s_held s =? c_gen c | _ => false end then []
                else [OResumeReq (c_gen c) i (s_down s); OResumed i]).
Proof. exact streams_resume_any_state. Qed.
Print Assumptions c05_streams_resume_any_state.

(* a resume whose exchange is itself cut is reported: closed event with the error, only that stream *)
Theorem c05_cut_resume_reported : forall c i s, fix_f19 (c_cfg c) = true -> c_status c <> Closed ->
  find_s i (c_streams c) = Some s -> s_phase s = SResuming -> (s_held s <> c_gen c \/ c_wclosed c = true) ->
  snd (step c (EResumeResp i RespOk)) = [OStreamClosed i true] /\
  (exists s', find_s i (c_streams (fst (step c (EResumeResp i RespOk)))) = Some s' /\ s_phase s' = SClosed true false) /\
  forall j, j <> i -> find_s j (c_streams (fst (step c (EResumeResp i RespOk)))) = find_s j (c_streams c).
Proof. exact cut_resume_reported. Qed.
Print Assumptions c05_cut_resume_reported.

(* in EVERY state of EVERY configuration a stream is reported closed with an error only out of a
   resume - the broker refused it, its exchange was cut, or its request could not be written on a dead
   wire connection.  A stream that was opened and whose resume was neither refused nor cut is never
   reported closed with an error. *)
Theorem c05_closed_with_error_only_by_resume : forall c e i, In (OStreamClosed i true) (snd (step c e)) ->
  exists s, find_s i (c_streams c) = Some s /\
    ((exists r, e = EResumeResp i r /\ s_phase s = SResuming /\
                (r = RespRefused \/ (r = RespConflict /\ s_down s = true /\ fix_f46 (c_cfg c) = false) \/ s_held s <> c_gen c \/ c_wclosed c = true)) \/
     (e = ESup i /\ s_phase s = SWaitConn /\ c_status c = Connected /\ writable c = false)).
Proof. exact closed_with_error_only_by_resume. Qed.
Print Assumptions c05_closed_with_error_only_by_resume.

(* single steps used above, for every configuration *)
Theorem c05_supervisor_resumes : forall c i s, c_status c = Connected -> writable c = true ->
  find_s i (c_streams c) = Some s -> s_phase s = SWaitConn ->
  snd (step c (ESup i)) = [OResumeReq (c_gen c) i (s_down s)] /\
  exists s', find_s i (c_streams (fst (step c (ESup i)))) = Some s' /\ s_phase s' = SResuming /\ s_held s' = c_gen c.
Proof. exact supervisor_resumes. Qed.
Print Assumptions c05_supervisor_resumes.

(* FORMER code (before 741ede2, finding F9 - fixed): "every stream resumes" was false.  In this
   schedule the watcher of stream 0 is scheduled only after Reconnecting -> Connected has happened: the
   connection is up again, the stream still holds the dead wire connection (final code 1), no resume
   request was sent, and no wake-up of the stream's own goroutines could ever change that. *)
Theorem c05_streams_resume_former_refuted :
  let r := run (init former) f9_schedule in
  (c_status (fst r) = Connected) /\ (writable (fst r) = true) /\
  (finals_of (fst r) = [(0, 1)]) /\ (resumereqs_of (snd r) = []) /\
  (every_watcher_observes_each_outage (init former) f9_schedule = false).
Proof. exact streams_resume_refuted. Qed.
Print Assumptions c05_streams_resume_former_refuted.

Theorem c05_detached_stream_was_stuck : forall c i s, fix_f9 (c_cfg c) = false -> c_status c = Connected ->
  find_s i (c_streams c) = Some s -> s_phase s = SWatch ->
  step c (EWatch i) = (c, []) /\ step c (ESup i) = (c, []) /\ step c (EResumeResp i RespOk) = (c, []).
Proof. exact detached_is_stuck. Qed.
Print Assumptions c05_detached_stream_was_stuck.

(* for EVERY configuration, the former one included: under the schedule premise that every watcher
   ran during each outage no stream is ever detached (the most that could be said before the repair) *)
Theorem c05_streams_attached_if_observed : forall f evs,
  every_watcher_observes_each_outage (init f) evs = true ->
  Forall (fun s => s_phase s = SWatch -> s_held s = c_gen (fst (run (init f) evs))) (c_streams (fst (run (init f) evs))).
Proof. intros f evs H. exact (attached_run evs (init f) (attached_init f) H). Qed.
Print Assumptions c05_streams_attached_if_observed.

(* FORMER code (before eca7266, finding F19 - fixed): a cut resume closed the stream without any event *)
Theorem c05_cut_resume_former_silent :
  let r := run (init former) [EStart 0 KOpenUp; EWake 0; EResp 0; ELinkDown; EDetect; ELoop; EWatch 0; EDial true;
                              ESup 0; ELinkDown; EDetect; ELoop; EResumeResp 0 RespOk] in
  sclosed_of (snd r) = [] /\ finals_of (fst r) = [(0, 3)].
Proof. exact cut_resume_silent_former. Qed.
Print Assumptions c05_cut_resume_former_silent.

(* c05_refused_only_that_stream: the answer to a resume request resumes the stream (one resumed
   event) or closes it with a closed event carrying the error - and changes no other stream. *)
Theorem c05_refused_only_that_stream : forall c i s r, c_up c = true -> c_wclosed c = false ->
  find_s i (c_streams c) = Some s -> s_phase s = SResuming -> s_held s = c_gen c ->
  match r with
  | RespOk => snd (step c (EResumeResp i r)) = [OResumed i]
  | RespRefused => snd (step c (EResumeResp i r)) = [OCloseReq (c_gen c) i; OStreamClosed i true]
  | RespConflict => snd (step c (EResumeResp i r)) =
                      (if s_down s && negb (fix_f46 (c_cfg c)) then [OCloseReq (c_gen c) i; OStreamClosed i true]
                       else [OResumeReq (c_gen c) i (s_down s)])
  end /\
  forall j, j <> i -> find_s j (c_streams (fst (step c (EResumeResp i r)))) = find_s j (c_streams c).
Proof. exact resume_answer. Qed.
Print Assumptions c05_refused_only_that_stream.

(* A stream is dropped only for a refusal the protocol makes FINAL: RESUME_REQUEST_CONFLICT (the broker
   still holds the old incarnation) is retried - the request is written again, the stream stays resuming,
   nothing is closed and no close request is sent; whatever an earlier attempt answered is forgotten when
   a later attempt is accepted (c05_refused_only_that_stream gives the accepted / refused cases).  Both
   directions, after any history of the code as it is. *)
Theorem c05_resume_conflict_retries : forall evs i s,
  let c := fst (run (init faithful) evs) in
  c_up c = true -> c_wclosed c = false ->
  find_s i (c_streams c) = Some s -> s_phase s = SResuming -> s_held s = c_gen c ->
  step c (EResumeResp i RespConflict) = (c, [OResumeReq (c_gen c) i (s_down s)]).
Proof. exact resume_conflict_retries_now. Qed.
Print Assumptions c05_resume_conflict_retries.

Theorem c05_resume_conflict_retries_any_state : forall c i s, fix_f46 (c_cfg c) = true -> c_up c = true -> c_wclosed c = false ->
  find_s i (c_streams c) = Some s -> s_phase s = SResuming -> s_held s = c_gen c ->
  step c (EResumeResp i RespConflict) = (c, [OResumeReq (c_gen c) i (s_down s)]).
Proof. exact resume_conflict_retries. Qed.
Print Assumptions c05_resume_conflict_retries_any_state.

(* both directions, end to end: a downstream answered conflict, then accepted, is resumed and working *)
Theorem c05_downstream_conflict_retried :
  let r := run (init faithful) [EStart 0 KOpenDown; EWake 0; EResp 0; ELinkDown; EDetect; ELoop; EWatch 0; EDial true;
                                ESup 0; EResumeResp 0 RespConflict; EResumeResp 0 RespOk] in
  sclosed_of (snd r) = [] /\ finals_of (fst r) = [(0, 0)] /\ resumereqs_of (snd r) = [(1, 0, true); (1, 0, true)].
Proof. exact downstream_conflict_retried_now. Qed.
Print Assumptions c05_downstream_conflict_retried.

(* FORMER code (before 110718a, finding F46 - fixed): for a DOWNSTREAM the second attempt of
   Downstream.resume subscribed the alias again on the same wire connection ("already subscribed") and the
   stream was closed with that error - a non-final answer dropped the stream. *)
Theorem c05_downstream_conflict_former_refuted :
  let r := run (init former) [EStart 0 KOpenDown; EWake 0; EResp 0; ELinkDown; EDetect; ELoop; EWatch 0; EDial true;
                              ESup 0; EResumeResp 0 RespConflict] in
  sclosed_of (snd r) = [(0, true)] /\ finals_of (fst r) = [(0, 2)].
Proof. exact downstream_conflict_closes. Qed.
Print Assumptions c05_downstream_conflict_former_refuted.

(* The closed-with-error (and every other) notification is DELIVERED, not just queued: the stream's
   dispatcher (event_dispatcher.go) looks at its context only while its queue is empty, so for every
   history of addHandler / context cancellation / loop turns / slow batches: at the moment the loop exits
   everything ever queued has been delivered, in order; and while it has not exited one more turn of the
   loop delivers whatever is queued. *)
Theorem c05_closed_event_delivered : forall pre e,
  let s := drun false dinit pre in
  d_exited s = false -> d_exited (dstep false s e) = true ->
  e = DTake /\ d_delivered (dstep false s e) = dadds pre /\ d_q (dstep false s e) = [].
Proof. exact dispatcher_drains_before_exit. Qed.
Print Assumptions c05_closed_event_delivered.

Theorem c05_dispatcher_delivers : forall evs,
  let s := drun false dinit evs in d_exited s = false ->
  let s' := drun false s [DDone; DTake; DDone] in
  d_delivered s' = dadds evs /\ d_q s' = [] /\ d_batch s' = [].
Proof. exact dispatcher_delivers. Qed.
Print Assumptions c05_dispatcher_delivers.

(* NOT the code: a loop that also leaves when its context is done right after a batch loses the
   notification queued while a slow handler ran *)
Theorem c05_hasty_dispatcher_refuted :
  let s := drun true dinit [DAdd 1; DTake; DAdd 2; DCancel; DDone; DTake; DDone] in
  d_exited s = true /\ d_delivered s = [1] /\ d_q s = [2].
Proof. exact hasty_dispatcher_drops. Qed.
Print Assumptions c05_hasty_dispatcher_refuted.

(* Requests go through send(): as long as the user has not called Close, no open / metadata / call
   ever returns the connection-closed error, whatever fails and in whatever order ... *)
Theorem c05_requests_retried : forall f evs, ~ In ECloseCall evs ->
  filter is_connclosed_ret (snd (run (init f) evs)) = [].
Proof. intros f evs H. apply (open_run evs (init f)); [discriminate|exact H]. Qed.
Print Assumptions c05_requests_retried.

(* ... a request whose exchange was cut (its wire connection is closed or replaced) goes back to
   waiting - not returned, not dropped - and flags the outage ... *)
Theorem c05_request_cut_waits_again : forall c k q g, find_q k (c_reqs c) = Some q -> q_phase q = QFlight g ->
  c_status c <> Closed -> (g <> c_gen c \/ c_wclosed c = true) ->
  snd (step c (EFail k)) = [] /\
  exists q', find_q k (c_reqs (fst (step c (EFail k)))) = Some q' /\ q_phase q' = QWait /\ q_kind q' = q_kind q /\
  c_status (fst (step c (EFail k))) = Reconnecting.
Proof. exact request_cut_waits_again. Qed.
Print Assumptions c05_request_cut_waits_again.

(* ... and a waiting request is written again, on the current wire connection, at its first wake-up
   after the connection is back. *)
Theorem c05_request_rewritten : forall c k q, find_q k (c_reqs c) = Some q -> q_phase q = QWait ->
  c_status c = Connected -> writable c = true ->
  snd (step c (EWake k)) = [OReq (c_gen c) k (q_kind q)].
Proof. exact request_rewritten. Qed.
Print Assumptions c05_request_rewritten.

(* Notifications once per outage: Disconnected and Reconnected alternate.  At any point of any
   history their counts differ by at most one, are equal while the loop is inside run(), and
   Disconnected leads by exactly one while reconnect() is dialling. *)
Theorem c05_events_once : forall f evs,
  let o := snd (run (init f) evs) in
  (nreconn o <= ndisc o <= S (nreconn o))%nat /\
  (c_loop (fst (run (init f) evs)) = LRun -> ndisc o = nreconn o) /\
  (c_loop (fst (run (init f) evs)) = LDial -> ndisc o = S (nreconn o)).
Proof. exact events_alternate. Qed.
Print Assumptions c05_events_once.

(* non-vacuity: two streams, an outage with one failed handshake, a metadata request cut by it; the
   watcher of stream 1 is scheduled only AFTER the redial completed (the F9 schedule): both streams
   resume under their ids all the same, the request is written again *)
Example c05_example :
  let evs := [EStart 0 KOpenUp; EWake 0; EResp 0; EStart 1 KOpenDown; EWake 1; EResp 1;
              EStart 2 KMeta; EWake 2; ELinkDown; EDetect; EFail 2; ELoop; EWatch 0;
              EDial false; EDial true; EWatch 1; ESup 0; EResumeResp 0 RespOk; ESup 1; EResumeResp 1 RespOk;
              EWake 2; EResp 2] in
  let r := run (init faithful) evs in
  every_watcher_observes_each_outage (init faithful) evs = false /\
  connects_of (init_outs ++ snd r) = [(0,0); (1,1); (2,2)] /\
  resumereqs_of (snd r) = [(1,0,false); (1,1,true)] /\
  reqs_of (snd r) = [(0,0); (0,1); (0,2); (1,2)] /\
  rets_of (snd r) = [(0,0); (1,0); (2,0)] /\
  finals_of (fst r) = [(0,0); (1,0)].
Proof. vm_compute. repeat split. Qed.

(* C09 (static part) - lockset discipline of the guarded fields.
   Property theorems only; lemmas are in Proofs/LocksetProofs.v; the access table is regenerated
   from the source tree and go/cmd/gen-guards/guards.json on every run (Gen/Guards.v). *)
From Coq Require Import List String NArith Bool Arith.
From Iscp Require Import Model.LockCfg Model.Lockset Proofs.LocksetProofs Gen.Guards.
Import ListNotations.
Open Scope list_scope.

(* Eraser-style soundness, for every guard assignment and every interleaving of any number of
   threads: in an execution (valid w.r.t. reader/writer lock semantics) in which every access
   holds the guard of its variable - in write mode for a write - two conflicting accesses of
   different threads (same variable, at least one write) are always separated by a release of
   the guard by the first thread followed by an acquisition by the second: they are ordered by
   the lock's release -> acquire (happens-before) edge. *)
Theorem c09_lockset_sound : forall guard pre t1 a1 mid t2 a2 post x,
  disciplined guard init_locks (pre ++ (t1, a1) :: mid ++ (t2, a2) :: post) = true ->
  t1 <> t2 -> conflicting a1 a2 x ->
  exists A B C m1 m2, mid = A ++ (t1, ARel (guard x) m1) :: B ++ (t2, AAcq (guard x) m2) :: C.
Proof. exact lockset_sound. Qed.
Print Assumptions c09_lockset_sound.

(* ... and in no reachable state are two conflicting accesses of different threads both enabled
   under the discipline (no "simultaneous" race) *)
Theorem c09_no_simultaneous : forall guard tr s t1 t2 a1 a2 x,
  run init_locks tr = Some s -> t1 <> t2 -> conflicting a1 a2 x ->
  access_ok guard s (t1, a1) = true -> access_ok guard s (t2, a2) = true -> False.
Proof. exact lockset_no_simultaneous. Qed.
Print Assumptions c09_no_simultaneous.

(* THE OBLIGATION over the generated table: every non-constructor access of every field of the
   guard map holds the field's guard (sibling mutex of the same object, named by selector path) -
   write mode for writes, map element writes, delete and address-taken; read or write mode for
   reads when the guard is an RWMutex - where the held set is the function's own dataflow plus
   its entry summary, and every entry summary is implied at every generated call edge. *)
Theorem c09_discipline : discipline_ok specs summaries call_edges accesses = true.
Proof. vm_compute. reflexivity. Qed.
Print Assumptions c09_discipline.

(* every field of the guard map has at least one access outside constructors (the obligation is
   not vacuous for any field) *)
Theorem c09_specs_exercised : specs_exercised specs accesses = true.
Proof. vm_compute. reflexivity. Qed.

(* fields with an argued unsynchronised access (suspected races, see guards.json "note"): the
   discipline holds at every access OUTSIDE the functions listed as known sites - a new
   unguarded access elsewhere still breaks this obligation. *)
Theorem c09_discipline_suspected_modulo_known :
  discipline_ok_modulo known_race_sites suspected_specs summaries call_edges suspected_accesses = true.
Proof. vm_compute. reflexivity. Qed.
Print Assumptions c09_discipline_suspected_modulo_known.

(* non-vacuity of the semantics: two threads under a RWMutex (lock 0 guards variable 0): a reader
   section, then a writer section - disciplined; the same accesses without the writer's lock - not *)
Example c09_example_semantics :
  let guard := fun _ : var => 0%nat in
  disciplined guard init_locks
    [(1, AAcq 0 R); (2, AAcq 0 R); (1, ARd 0); (2, ARd 0); (1, ARel 0 R); (2, ARel 0 R);
     (2, AAcq 0 W); (2, AWr 0); (2, ARel 0 W); (1, AAcq 0 R); (1, ARd 0); (1, ARel 0 R)]%nat = true /\
  disciplined guard init_locks [(1, AAcq 0 R); (1, ARd 0); (2, AWr 0)]%nat = false /\
  (* a writer cannot enter while a reader is inside *)
  run init_locks [(1, AAcq 0 R); (2, AAcq 0 W)]%nat = None.
Proof. vm_compute. repeat split; reflexivity. Qed.

(* non-vacuity of the table and sensitivity of the check *)
Example c09_example_table :
  (100 <=? List.length accesses)%nat = true /\ (25 <=? List.length specs)%nat = true /\
  (* dropping the lock from one map write makes the check fail *)
  (let g := [mkGuard "T" "m" "mu" true] in
   discipline_ok g [] [] [mkAccess "T" "m" KW "f" 1%N "t" [("t.mu", W)] false;
                          mkAccess "T" "m" KR "g" 2%N "t" [("t.mu", R)] false] = true /\
   discipline_ok g [] [] [mkAccess "T" "m" KW "f" 1%N "t" [("t.mu", R)] false] = false /\
   discipline_ok g [] [] [mkAccess "T" "m" KR "g" 2%N "t" [] false] = false /\
   (* an entry summary that one call edge does not justify is rejected *)
   discipline_ok g [("h", [("t.mu", W)])]
                   [mkEdge "f" "h" 3%N [("x.mu", W)] [("t", "x")]; mkEdge "k" "h" 4%N [] [("t", "y")]]
                   [mkAccess "T" "m" KW "h" 5%N "t" [] false] = false /\
   discipline_ok g [("h", [("t.mu", W)])]
                   [mkEdge "f" "h" 3%N [("x.mu", W)] [("t", "x")]]
                   [mkAccess "T" "m" KW "h" 5%N "t" [] false] = true).
Proof. vm_compute. repeat split; reflexivity. Qed.

(* C08 - No API call blocks forever: context, close timeout, keepalive bound every wait.
   Property theorems only.  Part A/C (static, regenerated from the source on every run) are in
   Props/C08static.v and restated here; part B (the blocking protocols as processes with guard
   sets, Model/Blocking.v; lemmas in Proofs/BlockingProofs.v) is new in this file. *)
From Coq Require Import List String NArith Bool Arith.
From Iscp Require Import Model.LockCfg Proofs.LockCfgProofs Gen.LockCfg Gen.Waits Props.C08static.
From Iscp Require Import Model.Lockset Gen.Guards.
From Iscp Require Import Model.Blocking Proofs.BlockingProofs.
Import ListNotations.
Open Scope list_scope.
Open Scope N_scope.

(* ======================= part A / C: static (re-exported) ======================= *)

(* "No input sequence leaves the client holding a lock it never releases": on EVERY control-flow
   path of EVERY lock-taking function of the library (no exclusion) no lock operation faults and
   at the exit everything held has a deferred release. *)
Theorem c08_lock_release_all_paths : forall g, In g all_cfgs ->
  exists s0, init_state (locks_of g) g = Some s0 /\
  forall p b nd, path (nodes g) 0 p b -> nth_error (nodes g) b = Some nd -> succs nd = [] ->
    exists s, run_path (locks_of g) (nodes g) 0 p s0 = Some s /\ fst s = snd s.
Proof. exact c08_lock_release_paths. Qed.
Print Assumptions c08_lock_release_all_paths.

(* no self-deadlock (recursive RLock, Lock under RLock, ...): on every path of every lock-taking
   function no mutex is acquired while it is held in any mode ... *)
Theorem c08_no_self_deadlock : forall g, In g all_cfgs ->
  exists s0, init_state (locks_of g) g = Some s0 /\
  forall p b, path (nodes g) 0 p b -> run_path_nr (locks_of g) (nodes g) 0 p s0 = true.
Proof. exact c08_no_reacquire_paths. Qed.
Print Assumptions c08_no_self_deadlock.

(* ... and across calls: a function that is only entered with locks held (the entry summaries of
   gen-guards, re-checked at every call edge by c09_guarded_fields) acquires none of them *)
Theorem c08_no_self_deadlock_callees : no_reacq_callees summaries all_cfgs = true.
Proof. vm_compute. reflexivity. Qed.
Print Assumptions c08_no_self_deadlock_callees.

(* the caller's context reaches every blocking request (stream close requests, open requests,
   metadata, Flush, the ack wait, the retry wrapper): none of them is handed a stored stream /
   connection context or a mixture - so the context guard of the model's selects is the caller's *)
Theorem c08_caller_ctx : forallb caller_ctx_ok ctx_args = true /\ blocking_callees_used ctx_args = true.
Proof. exact c08_caller_ctx_alternatives. Qed.
Print Assumptions c08_caller_ctx.

(* the bare sends into a requester's 1-slot channel are single: registration deleted before the send *)
Theorem c08_single_send : single_send_ok waits = true.
Proof. exact c08_single_send_channels. Qed.
Print Assumptions c08_single_send.

(* every blocking statement of the library is bounded by syntactic evidence or is one of the
   protocols below / a stated join; none is under a lock (the list of exceptions is empty) *)
Theorem c08_every_wait_classified :
  waits_classified wait_protocols lock_waits waits = true /\ table_used wait_protocols waits = true /\
  forallb (wait_consistent all_cfgs) waits = true /\
  (* no lost wake-up: no bare cancellation waker, the required locked ones are there *)
  forallb (cond_wakers_ok required_wakers) waits = true /\ wakers_table_used required_wakers waits = true.
Proof. exact (conj c08_waits_classified (conj c08_wait_table_used (conj c08_waits_consistent c08_cond_wakers))). Qed.
Print Assumptions c08_every_wait_classified.

(* ======================= part B: bounded waits ======================= *)

(* c08_bounded.  For EVERY system of calls and internal steps whose processes satisfy [wf D]
   (every blocking select has a clock guard <= D - a context deadline, the close timeout - ; locks
   are not nested and are released before returning), every initial flag set, every keepalive
   setting and EVERY event list - clock ticks, the environment raising and clearing any signal at
   any time (replies, acks, status changes, contexts: every broker behaviour and every schedule is
   such a list), the link dying and coming back, new wf calls being issued at any moment, every
   choice of select among ready alternatives - : in any state whose clock has reached D, every
   process has returned.  A process waiting for a mutex is covered: its holder is wf, hence has
   returned or released by D. *)
Theorem c08_bounded : forall D kaval fs ps evs,
  forallb (wf D None) ps = true -> forallb (ev_ok (wf D None)) evs = true ->
  let w := run (init kaval fs ps) evs in
  D <= now w -> forall p, In p (procs w) -> returned p = true.
Proof. exact bounded. Qed.
Print Assumptions c08_bounded.

(* ... in particular for every sequence of broker behaviours over {answer, delay, drop,
   misaddress, disconnect}, each applied to any exchange (flag), at any time, with any delay:
   after the tick that reaches D everybody has returned *)
Theorem c08_bounded_behaviours : forall D kaval fs ps (bs : list (beh * flag * N * N)) c,
  forallb (wf D None) ps = true ->
  let w := run (init kaval fs ps) (script_events bs kaval ++ [(ETick D, c)]) in
  forall p, In p (procs w) -> returned p = true.
Proof. exact bounded_behaviours. Qed.
Print Assumptions c08_bounded_behaviours.

(* the "min": in every reachable state of ANY system (no hypothesis), a process that is waiting
   in a select has NONE of its guards due: the clock is below every clock guard of that select
   (context deadline, close timeout, ack timeout - so it leaves at the minimum of them) and none
   of its signals is up (so it leaves as soon as the reply / the closed-connection signal - which
   keepalive raises ping interval + ping timeout after the link died, [c08_keepalive_rule] - is up) *)
Theorem c08_wait_min : forall kaval fs ps evs p,
  let w := run (init kaval fs ps) evs in
  In p (procs w) -> is_chain (code p) = true ->
  (forall d, In d (chain_times (code p)) -> now w < d) /\
  (forall f, In f (chain_flags (code p)) -> fl_mem f (flags w) = false).
Proof. exact wait_min. Qed.
Print Assumptions c08_wait_min.

Theorem c08_keepalive_rule : forall w t t0, dead_since w = Some t0 -> t0 + ka w <= t ->
  fl_mem FWClosed (flags (apply_event (ETick t) w)) = true.
Proof. exact tick_detects. Qed.
Print Assumptions c08_keepalive_rule.

(* the dispatcher is never stuck: in every reachable state of a system whose processes obey the
   lock discipline [lwf fast_lock] (no select is entered while a table lock or the stream lock
   is held; no nesting; release before return) - whatever their contexts, deadline or not -
   every process whose remaining code is a dispatcher step (no select, fast locks only) has
   returned; and a dispatcher step started in any reachable state completes within that event *)
Theorem c08_dispatcher_never_stuck : forall kaval fs ps evs,
  forallb (lwf fast_lock None) ps = true -> forallb (ev_ok (lwf fast_lock None)) evs = true ->
  let w := run (init kaval fs ps) evs in
  forall p, In p (procs w) -> nowait fast_lock (code p) = true -> returned p = true.
Proof. exact (never_stuck fast_lock). Qed.
Print Assumptions c08_dispatcher_never_stuck.

Theorem c08_dispatch_completes : forall kaval fs ps evs d c,
  forallb (lwf fast_lock None) ps = true -> forallb (ev_ok (lwf fast_lock None)) evs = true ->
  lwf fast_lock None d = true -> nowait fast_lock d = true ->
  let w := run (init kaval fs ps) (evs ++ [(ESpawn d, c)]) in
  returned (last (procs w) dummy) = true.
Proof. exact (dispatch_completes fast_lock). Qed.
Print Assumptions c08_dispatch_completes.

(* the modelled calls of the library AS IT IS satisfy the hypotheses: with a context deadline
   d <= D every one of them is wf D (for every number of reconnect retries, request id, close
   timeout) ... *)
Theorem c08_calls_wf : forall D d, d <= D ->
  (forall n id, wf D None (connRequest n (Some d) id) = true) /\        (* SendMetadata, OpenUpstream *)
  (forall n id, wf D None (openDownstream n (Some d) id) = true) /\
  (forall cto id, wf D None (upClose (Some d) cto id) = true) /\       (* Upstream.Close (F7 repaired) *)
  (forall id, wf D None (downClose (Some d) id) = true) /\
  wf D None (upFlush (Some d) (fun r => Ret r)) = true /\
  forallb (wf D None) [upWrite (Some d); readDP (Some d); readMeta (Some d); e2eCall (Some d) (Ret ONil);
                       e2eCallAndWait (Some d); connClose; upState; upFlushInternal; processResult; dispatchMeta;
                       dispatchChunk; dispatchAck; dispatchReply 1] = true.
Proof.
  intros D d Hd. repeat split.
  - intros. apply wf_connRequest; exact Hd.
  - intros. apply wf_openDownstream; exact Hd.
  - intros. apply wf_upClose; exact Hd.
  - intros. apply wf_downClose; exact Hd.
  - apply wf_upFlush; [exact Hd|reflexivity].
  - apply wf_simple_calls; exact Hd.
Qed.
Print Assumptions c08_calls_wf.

(* ... and, deadline or not, the lock discipline; the dispatcher steps are wait-free *)
Theorem c08_calls_lwf : forall ctx cto n id,
  lwf fast_lock None (connRequest n ctx id) = true /\ lwf fast_lock None (openDownstream n ctx id) = true /\
  forallb (lwf fast_lock None) [upWrite ctx; upFlush ctx (fun r => Ret r); upClose ctx cto id; downClose ctx id;
                                readDP ctx; readMeta ctx; e2eCall ctx (Ret ONil); e2eCallAndWait ctx; connClose;
                                upState; upFlushInternal; processResult; dispatchMeta; dispatchChunk; dispatchAck; dispatchReply id] = true /\
  forallb (nowait fast_lock) [dispatchMeta; dispatchChunk; dispatchAck; dispatchReply id; upState; upFlushInternal; processResult] = true.
Proof.
  intros. split; [apply lwf_connRequest|]. split; [apply lwf_openDownstream|].
  split; [apply lwf_simple_calls|apply nowait_dispatch].
Qed.
Print Assumptions c08_calls_lwf.

(* ======================= the one defect the faithful model still has, and the former ones ======================= *)

(* former F5 (iscp/state.go waitUntil called hooker(status) with the TARGET; repaired 9b8bda8):
   kept as a lemma about the former process; the process as it is returns the connection-closed
   error at once *)
Theorem c08_F5_former_refuted :
  blocked_forever (init 60 [FStClosed; FWClosed] [connRequest_F5 2 None 1]) 0 /\
  (let p := nth 0 (procs (run (init 60 [FStClosed; FWClosed] [connRequest_F5 2 (Some 300) 1]) [(ETick 300, 0%nat)])) dummy in
   result p = OCtx /\ ret_at p = Some 300) /\
  (let p := nth 0 (procs (init 60 [FStClosed; FWClosed] [connRequest 2 None 1])) dummy in
   result p = OConnClosed /\ ret_at p = Some 0).
Proof. exact F5_former_refuted. Qed.
Print Assumptions c08_F5_former_refuted.

(* former F13 (iscp/upstream.go processResult after an ack timeout; repaired 611d2de) *)
Theorem c08_F13_former_refuted :
  lwf fast_lock None processResult_F13 = false /\ wf 300 None processResult_F13 = false /\
  blocked_forever (init 60 [FStConnected; FWaiterEntry] [processResult_F13; upState]) 1 /\
  blocked_forever (init 60 [FStConnected; FWaiterEntry; FFlushReady] [processResult_F13; upClose (Some 300) 200 1]) 1 /\
  (let w := init 60 [FStConnected; FWaiterEntry] [processResult; upState] in
   forallb returned (procs w) = true).
Proof. exact F13_former_refuted. Qed.
Print Assumptions c08_F13_former_refuted.

(* former F6 (wire/client_conn.go readDownstreamMetadataLoop; repaired 900bd4c), dynamic face of
   c08_F6_former_refuted of part A *)
Theorem c08_F6_former_blocks :
  lwf fast_lock None dispatchMeta_F6 = false /\
  (let w := init 60 [FStConnected; FAliasSub; FFinalAck; FReply 1] [dispatchMeta_F6; downClose (Some 300) 1] in
   held (nth 0 (procs w) dummy) = Some (LDmu, LR) /\ returned (nth 0 (procs w) dummy) = true /\ blocked_forever w 1) /\
  (let w := init 60 [FStConnected; FAliasSub; FFinalAck; FReply 1] [dispatchMeta; downClose (Some 300) 1] in
   forallb returned (procs w) = true).
Proof. exact F6_former_refuted. Qed.
Print Assumptions c08_F6_former_blocks.

(* F31 (open): Conn.Close is bounded by the contexts of the requests in flight (c08_bounded:
   connClose is wf D for every D), NOT by its own: *)
Theorem c08_conn_close_refuted :
  blocked_forever (init 60 [FStConnected] [connRequest 2 None 1; connClose]) 1 /\
  (let p := nth 1 (procs (run (init 60 [FStConnected] [connRequest 2 (Some 3000) 1; connClose])
                               [(ETick 100, 0%nat); (ETick 3000, 0%nat)])) dummy in
   result p = ONil /\ ret_at p = Some 3000).
Proof. exact conn_close_refuted. Qed.
Print Assumptions c08_conn_close_refuted.

(* Conn.Close during an outage with failing redials.  Conn.reconnect holds wireConnMu for its
   whole redial loop, whose only exit on a failed dial is the Closed status; Conn.Close swaps the
   status to Closed BEFORE it asks for wireConnMu.  For every initial valuation of the status /
   wire / dial flags and every later event list, the loop and Close have both returned ... *)
Theorem c08_close_during_outage : forall fs evs, In fs (powerset outage_flags) ->
  let w := run (init 60 fs [reconnectHold; connClose]) evs in
  returned (nth 0 (procs w) dummy) = true /\ returned (nth 1 (procs w) dummy) = true.
Proof. exact close_during_outage. Qed.
Print Assumptions c08_close_during_outage.

(* ... and with the two steps in the other order Close never returns while the redials fail
   (it returns only if a dial succeeds): the order is what makes the loop end *)
Theorem c08_close_lockfirst_refuted :
  blocked_forever (init 60 [FStConnected] [reconnectHold; connClose_lockfirst]) 1 /\
  blocked_forever (init 60 [FStReconnecting; FWClosed] [reconnectHold; connClose_lockfirst]) 1 /\
  forallb returned (procs (run (init 60 [FStConnected] [reconnectHold; connClose_lockfirst]) [(ESet FDialOk true, 0%nat)])) = true /\
  lwf fast_lock None reconnectHold = true /\ lwf fast_lock None connClose_lockfirst = true.
Proof. exact close_lockfirst_refuted. Qed.
Print Assumptions c08_close_lockfirst_refuted.

(* Upstream.Close whose deadlines expire while its drain loop is inside sent.List / waiting for
   u.mu (until tL): the wakers hold receivedAck.L around their Broadcast (static obligation
   c08_cond_wakers), so the wake-up is delivered when Wait() releases the lock: bounded by
   max(ctx, tL).  With a bare Broadcast the clock guards are no guards: that process is
   upClose_barewake = upClose_F7, refuted below. *)
Theorem c08_upclose_slow_wf : forall D d cto tL id, d <= D -> tL <= D ->
  wf D None (upClose_slow (Some d) cto tL id) = true.
Proof. exact wf_upClose_slow. Qed.
Print Assumptions c08_upclose_slow_wf.

(* the explicit-flush handshake (Upstream.Flush / flushLoop): after any Flush call - for every
   consistent valuation of the stream and run contexts, every deadline situation of the caller
   (already done, done later, none), every select resolution, with u.flush instantaneous or held
   up past the caller's deadline (the window) - the flush loop is back at its select (or has ended
   with its run context) and a caller with a deadline has returned: the loop's select on the
   result has the abandoned-caller arm (remoteDone) *)
Theorem c08_flush_loop_returns :
  forallb (fun fs => forallb (fun ctx => forallb (fun c =>
     (let w := run (init 60 fs [flushServe]) [(ESpawn (upFlushCaller ctx), c); (ETick 300, c)] in
      loop_idle (nth 0 (procs w) dummy) &&
      (returned (nth 1 (procs w) dummy) || match ctx with None => true | Some _ => false end)) &&
     (let w := run (init 60 fs [lockHolder; flushServe]) (window_events ctx c) in
      loop_idle (nth 1 (procs w) dummy) &&
      (returned (nth 2 (procs w) dummy) || match ctx with None => true | Some _ => false end)))
     (seq 0 6)) flush_ctxs) flush_flagsets = true.
Proof. vm_compute. reflexivity. Qed.
Print Assumptions c08_flush_loop_returns.

(* ... without that arm one abandoned Flush wedges the stream for ever *)
Theorem c08_flush_noRemoteDone_refuted :
  (let w := run (init 60 [] [lockHolder; flushServe_noRemoteDone]) (window_events (Some 100) 0 ++ [(ETick far, 0%nat)]) in
   loop_idle (nth 1 (procs w) dummy) = false /\ result (nth 2 (procs w) dummy) = OCtx /\
   fl_mem FFlushReady (flags w) = false) /\
  (let w := run (init 60 [] [lockHolder; flushServe]) (window_events (Some 100) 0 ++ [(ETick far, 0%nat)]) in
   loop_idle (nth 1 (procs w) dummy) = true /\ result (nth 2 (procs w) dummy) = OCtx).
Proof. exact flush_noRemoteDone_refuted. Qed.
Print Assumptions c08_flush_noRemoteDone_refuted.

(* the single dispatch goroutine and the call inbox: calls nobody collects are dropped without
   waiting, so a flood of them is a dispatcher step in the sense of c08_dispatcher_never_stuck and
   the reply behind it is delivered at once; with a wait for room the dispatcher stops and the
   request, although answered, runs into its deadline *)
Theorem c08_call_inbox_flood :
  (let w := run (init 60 [FStConnected] [connRequest 2 (Some 300) 1; flood dispatchCallK 1100 (dispatchReplyK 1 (Ret ONil))]) [(ETick 300, 0%nat)] in
   map result (procs w) = [ONil; ONil] /\ map ret_at (procs w) = [Some 0; Some 0]) /\
  (let w := run (init 60 [FStConnected] [connRequest 2 (Some 300) 1; flood dispatchCallK_wait 10 (dispatchReplyK 1 (Ret ONil))]) [(ETick 300, 0%nat); (ETick far, 0%nat)] in
   result (nth 0 (procs w) dummy) = OCtx /\ returned (nth 1 (procs w) dummy) = false) /\
  nowait fast_lock (flood dispatchCallK 1100 (dispatchReplyK 1 (Ret ONil))) = true /\
  nowait fast_lock (dispatchCallK_wait (Ret ONil)) = false.
Proof. exact call_inbox_flood. Qed.
Print Assumptions c08_call_inbox_flood.

(* F7 is repaired in /repo; the old drain loop stays refuted (regression guard for the model) *)
Theorem c08_F7_old_refuted :
  wf 300 None (upClose_F7 (Some 300) 200 1) = false /\
  blocked_forever (init 60 [FStConnected; FFlushReady; FFlushRes; FReply 1] [upClose_F7 (Some 300) 200 1]) 0 /\
  (let p := nth 0 (procs (run (init 60 [FStConnected; FFlushReady; FFlushRes; FReply 1] [upClose (Some 300) 200 1])
                               [(ETick 200, 0%nat)])) dummy in
   result p = ONil /\ ret_at p = Some 200).
Proof. exact F7_old_refuted. Qed.
Print Assumptions c08_F7_old_refuted.

(* non-vacuity: a system of five concurrent calls with deadlines <= 300 under a hostile script
   (reply dropped, link dies, stray replies) - hypotheses hold, everybody has returned at 300,
   with the expected classes (the read shares the stream context that Upstream.Close cancels in
   this small system, hence its stream-closed result) *)
Example c08_example :
  let ps := [connRequest 2 (Some 300) 1; upClose (Some 250) 120 7; readDP (Some 200); connClose; e2eCallAndWait (Some 300)] in
  let evs := [(ESet (FReply 9) true, 0%nat); (ELinkDies, 0%nat); (ETick 60, 1%nat); (ESet FFlushReady true, 0%nat);
              (ESet FFlushRes true, 0%nat); (ETick 130, 0%nat); (ETick 300, 2%nat)] in
  forallb (wf 300 None) ps = true /\ forallb (ev_ok (wf 300 None)) evs = true /\
  map result (procs (run (init 60 [FStConnected] ps) evs)) = [OConnClosed; OConnClosed; OStreamClosed; ONil; OConnClosed].
Proof. vm_compute. repeat split; reflexivity. Qed.

(* C07 - streams sharing a connection are isolated.  Property theorems only.
   Part 1: the per-connection sent storage (Model/Storage.v, iscp/storage.go).
   Part 2: the routing tables of the wire connection (Model/Route.v, wire/client_conn.go). *)
From Coq Require Import List NArith Bool.
From Iscp Require Import Lib.ListMap Model.Upstream Model.Storage Proofs.StorageProofs.
Import ListNotations.
Open Scope N_scope.

(* ---------------------------------------------------------------- storage *)

(* Non-interference, relational form, REPAIRED Clear (delete of one key): for both storage
   variants, every stream b and any two operation histories whose operations addressed to b
   coincide - whatever else is done to other streams, in any interleaving - List b returns the
   same map at the end and every operation addressed to b returned the same result. *)
Theorem c07_storage_noninterference : forall keep b ops1 ops2,
  proj_ops b ops1 = proj_ops b ops2 ->
  st_list b (fst (srun ClearRepaired keep [] ops1)) = st_list b (fst (srun ClearRepaired keep [] ops2)) /\
  proj_res b ops1 (snd (srun ClearRepaired keep [] ops1)) = proj_res b ops2 (snd (srun ClearRepaired keep [] ops2)).
Proof.
  intros keep b ops1 ops2.
  exact (run_noninterference ClearRepaired keep b ops1 ops2 (or_introl eq_refl) (or_introl eq_refl)).
Qed.
Print Assumptions c07_storage_noninterference.

(* Projection = solo run (repaired Clear): what stream b observes in a shared storage is what it
   observes in a storage used by b alone. *)
Theorem c07_storage_projection : forall keep b ops,
  lookup b (fst (srun ClearRepaired keep [] ops)) = lookup b (fst (srun ClearRepaired keep [] (proj_ops b ops))) /\
  proj_res b ops (snd (srun ClearRepaired keep [] ops)) = snd (srun ClearRepaired keep [] (proj_ops b ops)).
Proof. intros keep b ops. exact (run_projection ClearRepaired keep b ops [] [] (or_introl eq_refl) eq_refl). Qed.
Print Assumptions c07_storage_projection.

(* The statement of the property text, one step: for streams a <> b, an operation addressed to a
   leaves List b unchanged - in every state, for the repaired Clear. *)
Theorem c07_storage_step : forall keep st o b,
  sop_stream o <> b -> st_list b (fst (sstep ClearRepaired keep st o)) = st_list b st.
Proof. intros keep st o b. exact (step_list_unchanged ClearRepaired keep st o b (or_introl eq_refl)). Qed.
Print Assumptions c07_storage_step.

(* TODAY's code: the same non-interference holds on every history that contains no Clear ... *)
Theorem c07_storage_noninterference_today_clearfree : forall keep b ops1 ops2,
  clear_free ops1 = true -> clear_free ops2 = true -> proj_ops b ops1 = proj_ops b ops2 ->
  st_list b (fst (srun ClearToday keep [] ops1)) = st_list b (fst (srun ClearToday keep [] ops2)) /\
  proj_res b ops1 (snd (srun ClearToday keep [] ops1)) = proj_res b ops2 (snd (srun ClearToday keep [] ops2)).
Proof.
  intros keep b ops1 ops2 H1 H2.
  exact (run_noninterference ClearToday keep b ops1 ops2 (or_intror H1) (or_intror H2)).
Qed.
Print Assumptions c07_storage_noninterference_today_clearfree.

(* ... and is REFUTED by today's Clear (finding F3): Clear of stream 1 empties stream 2. *)
Theorem c07_storage_noninterference_refuted :
  exists keep st o b,
    sop_stream o <> b /\ st_list b (fst (sstep ClearToday keep st o)) <> st_list b st.
Proof. exact clear_today_refuted. Qed.
Print Assumptions c07_storage_noninterference_refuted.

(* The predicate judged on the implementation's observations (c07_storage_ok) is true of every
   run of the repaired model, and false on the F3 witness that today's model and code produce. *)
Theorem c07_storage_ok_model : forall keep ids ops,
  c07_walk ids ops (map (fun _ => RNoStream) ids) (srun_snaps ClearRepaired keep ids [] ops) = true.
Proof.
  intros keep ids ops. rewrite <- snap_all_empty.
  exact (walk_model ClearRepaired keep ids ops [] (or_introl eq_refl)).
Qed.
Print Assumptions c07_storage_ok_model.

Theorem c07_storage_ok_refuted : st_corr f3_case = true /\ c07_storage_ok f3_case = false.
Proof. exact storage_ok_refuted. Qed.
Print Assumptions c07_storage_ok_refuted.

(* non-vacuity: two streams interleaved, a removal, a Clear of the other stream *)
Example c07_storage_example :
  let g1 := [(1, [(1, 11, 2)])] in let g2 := [(2, [(2, 22, 1); (3, 0, 0)])] in
  let ops := [SStore 1 1 g1; SStore 2 1 g2; SStore 1 2 g2; SRemove 1 1; SClear 1; SList 2] in
  proj_ops 2 ops = [SStore 2 1 g2; SList 2] /\
  snd (srun ClearRepaired true [] ops) = [RNil; RNil; RNil; RGroups g1; RNil; RList [(1, g2)]] /\
  snd (srun ClearToday true [] ops) = [RNil; RNil; RNil; RGroups g1; RNil; RNoStream] /\
  snd (srun ClearRepaired false [] [SStore 2 1 g2; SList 2]) = [RNil; RList [(1, [(2, [(2, 0, 0); (3, 0, 0)])])]].
Proof. vm_compute. repeat split. Qed.

(* C07 - streams sharing a connection are isolated.  Property theorems only.
   Part 1: the per-connection sent storage (Model/Storage.v, iscp/storage.go).
   Part 2: the routing tables of the wire connection (Model/Route.v, wire/client_conn.go). *)
From Coq Require Import List NArith Bool.
From Iscp Require Import Lib.ListMap Model.Upstream Model.Storage Proofs.StorageProofs Model.Route Proofs.RouteProofs.
Import ListNotations.
Open Scope N_scope.

(* ---------------------------------------------------------------- storage *)

(* Non-interference, relational form, for the code as it is (Clear deletes one key): for both storage
   variants, every stream b and any two operation histories whose operations addressed to b
   coincide - whatever else is done to other streams, in any interleaving - List b returns the
   same map at the end and every operation addressed to b returned the same result. *)
Theorem c07_storage_noninterference : forall keep b ops1 ops2,
  proj_ops b ops1 = proj_ops b ops2 ->
  st_list b (fst (srun ClearRepaired keep [] ops1)) = st_list b (fst (srun ClearRepaired keep [] ops2)) /\
  proj_res b ops1 (snd (srun ClearRepaired keep [] ops1)) = proj_res b ops2 (snd (srun ClearRepaired keep [] ops2)).
Proof.
  intros keep b ops1 ops2.
  exact (run_noninterference ClearRepaired keep b ops1 ops2 (or_introl eq_refl) (or_introl eq_refl)).
Qed.
Print Assumptions c07_storage_noninterference.

(* Projection = solo run: what stream b observes in a shared storage is what it
   observes in a storage used by b alone. *)
Theorem c07_storage_projection : forall keep b ops,
  lookup b (fst (srun ClearRepaired keep [] ops)) = lookup b (fst (srun ClearRepaired keep [] (proj_ops b ops))) /\
  proj_res b ops (snd (srun ClearRepaired keep [] ops)) = snd (srun ClearRepaired keep [] (proj_ops b ops)).
Proof. intros keep b ops. exact (run_projection ClearRepaired keep b ops [] [] (or_introl eq_refl) eq_refl). Qed.
Print Assumptions c07_storage_projection.

(* The statement of the property text, one step: for streams a <> b, an operation addressed to a
   leaves List b unchanged - in every state. *)
Theorem c07_storage_step : forall keep st o b,
  sop_stream o <> b -> st_list b (fst (sstep ClearRepaired keep st o)) = st_list b st.
Proof. intros keep st o b. exact (step_list_unchanged ClearRepaired keep st o b (or_introl eq_refl)). Qed.
Print Assumptions c07_storage_step.

(* The FORMER code (Clear replaced the whole map, F3, fixed in /repo 0f97a0d): the same
   non-interference held on every history that contains no Clear ... *)
Theorem c07_storage_noninterference_former_clearfree : forall keep b ops1 ops2,
  clear_free ops1 = true -> clear_free ops2 = true -> proj_ops b ops1 = proj_ops b ops2 ->
  st_list b (fst (srun ClearFormer keep [] ops1)) = st_list b (fst (srun ClearFormer keep [] ops2)) /\
  proj_res b ops1 (snd (srun ClearFormer keep [] ops1)) = proj_res b ops2 (snd (srun ClearFormer keep [] ops2)).
Proof.
  intros keep b ops1 ops2 H1 H2.
  exact (run_noninterference ClearFormer keep b ops1 ops2 (or_intror H1) (or_intror H2)).
Qed.
Print Assumptions c07_storage_noninterference_former_clearfree.

(* ... and was REFUTED by the former Clear (finding F3): Clear of stream 1 emptied stream 2. *)
Theorem c07_storage_former_clear_refuted :
  exists keep st o b,
    sop_stream o <> b /\ st_list b (fst (sstep ClearFormer keep st o)) <> st_list b st.
Proof. exact clear_former_refuted. Qed.
Print Assumptions c07_storage_former_clear_refuted.

(* The predicate judged on the implementation's observations (c07_storage_ok) is true of every
   run of the model of the code, and false on the F3 witness that the former model produces. *)
Theorem c07_storage_ok_model : forall keep ids ops,
  c07_walk ids ops (map (fun _ => RNoStream) ids) (srun_snaps ClearRepaired keep ids [] ops) = true.
Proof.
  intros keep ids ops. rewrite <- snap_all_empty.
  exact (walk_model ClearRepaired keep ids ops [] (or_introl eq_refl)).
Qed.
Print Assumptions c07_storage_ok_model.

Theorem c07_storage_ok_former_refuted :
  sc_res f3_case = snd (srun ClearFormer true [] (sc_ops f3_case)) /\
  sc_snaps f3_case = srun_snaps ClearFormer true (sc_ids f3_case) [] (sc_ops f3_case) /\
  c07_storage_ok f3_case = false.
Proof. exact storage_ok_refuted. Qed.
Print Assumptions c07_storage_ok_former_refuted.

(* non-vacuity: two streams interleaved, a removal, a Clear of the other stream *)
Example c07_storage_example :
  let g1 := [(1, [(1, 11, 2)])] in let g2 := [(2, [(2, 22, 1); (3, 0, 0)])] in
  let ops := [SStore 1 1 g1; SStore 2 1 g2; SStore 1 2 g2; SRemove 1 1; SClear 1; SList 2] in
  proj_ops 2 ops = [SStore 2 1 g2; SList 2] /\
  snd (srun ClearRepaired true [] ops) = [RNil; RNil; RNil; RGroups g1; RNil; RList [(1, g2)]] /\
  snd (srun ClearFormer true [] ops) = [RNil; RNil; RNil; RGroups g1; RNil; RNoStream] /\
  snd (srun ClearRepaired false [] [SStore 2 1 g2; SList 2]) = [RNil; RList [(1, [(2, [(2, 0, 0); (3, 0, 0)])])]].
Proof. vm_compute. repeat split. Qed.

(* ---------------------------------------------------------------- routing tables *)

(* Dispatch: a message of kind k (ack, chunk, unreliable chunk, ack-complete) addressed to alias x
   is handed to the channel registered under x in the table of kind k - no other channel. *)
Theorem c07_routing_deliver : forall s k x ch,
  snd (Route.rstep s (Recv k x)) = Deliver ch -> lookup x (tbl k s) = Some ch.
Proof. exact route_deliver. Qed.
Print Assumptions c07_routing_deliver.

Theorem c07_routing_deliver_meta : forall s x node ch,
  snd (Route.rstep s (RecvMeta x node)) = Deliver ch ->
  exists m, lookup x (t_meta s) = Some m /\ lookup node m = Some ch.
Proof. exact route_deliver_meta. Qed.
Print Assumptions c07_routing_deliver_meta.

(* Frame: whatever operation is addressed to alias a (open, resume, subscribe, dispatch, or the
   close of the stream whose alias is a), the entries of every other alias x in every alias-keyed
   table (ack channel, writer, chunk channels, ack-complete channel, metadata channels) are
   unchanged: opening, resuming or closing one stream never re-routes another. *)
Theorem c07_routing_frame : forall s o a x,
  op_alias s o = Some a -> x <> a -> at_alias x (fst (Route.rstep s o)) = at_alias x s.
Proof. exact route_frame. Qed.
Print Assumptions c07_routing_frame.

(* Close removes only the closing stream's entries from the stream-id tables as well. *)
Theorem c07_routing_frame_ids : forall s o sid',
  (forall sid a u h, o = OpenUp sid a u h -> sid <> sid') -> (forall sid, o = CloseUp sid -> sid <> sid') ->
  (forall sid a, o = DnAlias sid a -> sid <> sid') -> (forall sid, o = CloseDn sid -> sid <> sid') ->
  lookup sid' (t_upalias (fst (Route.rstep s o))) = lookup sid' (t_upalias s) /\
  lookup sid' (t_dnalias (fst (Route.rstep s o))) = lookup sid' (t_dnalias s).
Proof. exact route_frame_ids. Qed.
Print Assumptions c07_routing_frame_ids.

(* Closing a stream that has no alias entry on this connection (its resume request still
   unanswered, or refused) and a refused open/resume (whatever alias the response carries, zero
   included) change NOTHING in any table - in particular nothing of the stream that holds alias 0. *)
Theorem c07_routing_unregistered_noop : forall s o,
  (exists sid, o = CloseUp sid /\ lookup sid (t_upalias s) = None) \/
  (exists sid, o = CloseDn sid /\ lookup sid (t_dnalias s) = None) \/
  (exists sid a, o = OpenUpRefused sid a) ->
  fst (Route.rstep s o) = s.
Proof. exact route_unregistered_noop. Qed.
Print Assumptions c07_routing_unregistered_noop.

(* Channels are never shared: in every reachable state a channel just created is registered under
   no alias of any table - so the subscriber of x is the only holder of the channel x routes to. *)
Theorem c07_routing_fresh : forall ops o ch,
  let s := fst (rrun_rt rt_init ops) in
  snd (Route.rstep s o) = Created ch -> forall k x, lookup x (tbl k s) <> Some ch.
Proof. intros ops o ch s. apply created_is_new. apply fresh_run, fresh_init. Qed.
Print Assumptions c07_routing_fresh.

(* non-vacuity: two upstreams and a downstream; an ack for alias 2 goes to stream 2's channel;
   closing stream 10 (alias 1) leaves alias 2 routed; a metadata message from an unsubscribed
   node reaches nobody and later subscriptions and dispatches go on (F6 fixed) *)
Example c07_routing_alias0_example :
  snd (rrun_rt rt_init [OpenUp 10 0 false false; OpenUpRefused 20 0; CloseUp 20; Recv KAck 0; SendChunk 0])
  = [Created 0; Done; Done; Deliver 0; Writer 0].
Proof. vm_compute. reflexivity. Qed.

Example c07_routing_example :
  snd (rrun_rt rt_init [OpenUp 10 1 false false; OpenUp 20 2 true false; SubChunk 5 false false; DnAlias 30 5;
                        Recv KAck 2; CloseUp 10; Recv KAck 1; Recv KAck 2; Recv KChunk 5;
                        SubMeta 5 7; RecvMeta 5 8; RecvMeta 5 7; SubAckC 5; Recv KChunk 5; CloseDn 30; Recv KChunk 5])
  = [Created 0; Created 1; Created 2; Done; Deliver 1; Done; Nobody; Deliver 1; Deliver 2;
     Created 3; Nobody; Deliver 3; Created 4; Deliver 2; Done; Nobody].
Proof. vm_compute. reflexivity. Qed.

(* C03 - a downstream returns each chunk / metadata item the broker sent once, in order, with
   upstream aliases and data-id aliases replaced by exactly what the client itself announced.
   Property theorems only, over Model/Downstream.v, for EVERY code variant v (the code as it is
   = current, and the former variants before the repairs of F4 / F14 / F32), queue capacity, pre-registered id list and EVERY history of Arrive / ArriveMeta / Read / ReadMeta /
   AckTick / Close events (any relative timing of reads and arrivals is a list of such events).
   small_history bounds the history below 2^32 events / groups (no alias generator wraps). *)
From Coq Require Import List NArith Bool.
From Iscp Require Import Lib.ListMap Model.Downstream Proofs.DownstreamProofs.
Import ListNotations.
Open Scope N_scope.

(* Resolution: walking the output trace with the tables the client has announced so far (the
   pre-registered ones, then every alias shown by a ReadDataPoints call, those of the call itself
   included), every ReadDataPoints answer that consumed a chunk is exactly the resolution of that
   chunk through these tables - upstream alias -> announced info, data-id alias -> announced or
   pre-registered id, full forms as sent, sequence number and points unchanged - with error code 0;
   or, when some alias is not in the tables, no value and error code 1 or 2. *)
Theorem c03_resolution : forall v fl cap pre evs,
  small_history pre evs ->
  resolved [] (prereg_table 0 pre) (snd (drun (dinit v fl cap pre) evs)).
Proof. exact resolution. Qed.
Print Assumptions c03_resolution.

(* A chunk that uses an alias the client never announced in the whole history (neither
   pre-registered nor shown by any call) is reported as an error and nothing is delivered. *)
Theorem c03_unknown_alias_error : forall v fl cap pre evs c res err nu ni,
  small_history pre evs ->
  let outs := snd (drun (dinit v fl cap pre) evs) in
  In (ORead (Some c) res err nu ni) outs ->
  ~ aliases_known (minted_ups outs) (prereg_table 0 pre ++ minted_ids outs) c ->
  res = None /\ (err = 1 \/ err = 2).
Proof. exact unknown_alias_error. Qed.
Print Assumptions c03_unknown_alias_error.

(* Conversely every delivered chunk used only announced aliases. *)
Theorem c03_delivered_known : forall v fl cap pre evs c rc err nu ni,
  small_history pre evs ->
  let outs := snd (drun (dinit v fl cap pre) evs) in
  In (ORead (Some c) (Some rc) err nu ni) outs ->
  aliases_known (minted_ups outs) (prereg_table 0 pre ++ minted_ids outs) c /\ err = 0.
Proof. exact delivered_known. Qed.
Print Assumptions c03_delivered_known.

(* Once, in order: when the consumer keeps up (the queues never hold more than their capacity and
   nothing arrives after Close), the chunks consumed by ReadDataPoints followed by those still
   queued are exactly the chunks that arrived, in arrival order; likewise for metadata, and the
   DownstreamMetadataAcks sent are the request ids of the items returned, in the same order. *)
Theorem c03_once_in_order : forall v fl cap pre evs,
  keeps_up fl cap 0 0 false evs = true ->
  let r := drun (dinit v fl cap pre) evs in
  arrived_chunks evs = consumed_of (snd r) ++ d_inbox (fst r) /\
  map meta_pub (arrived_metas fl evs) = returned_metas (metas_of (snd r)) ++ map meta_pub (d_metabox (fst r)) /\
  map m_req (arrived_metas fl evs) = metaacks_of (snd r) ++ map m_req (d_metabox (fst r)).
Proof. exact once_in_order. Qed.
Print Assumptions c03_once_in_order.

(* Metadata per source node: the items returned for a node followed by those of that node still
   queued are the items that arrived from it, in order. *)
Theorem c03_meta_order : forall v fl cap pre evs src,
  keeps_up fl cap 0 0 false evs = true ->
  let r := drun (dinit v fl cap pre) evs in
  filter (fun x : N * N => fst x =? src) (map meta_pub (arrived_metas fl evs)) =
  filter (fun x : N * N => fst x =? src) (returned_metas (metas_of (snd r))) ++
  filter (fun x : N * N => fst x =? src) (map meta_pub (d_metabox (fst r))).
Proof. exact meta_per_source. Qed.
Print Assumptions c03_meta_order.

(* non-vacuity: two upstreams, the second chunk in alias form after its announcement, an alias used
   in the chunk that introduces the id, a pre-registered id, an unknown alias, metadata of two nodes *)
Example c03_example :
  let evs := [Arrive (mkChunk 1 (UFull 7) 1 [(DFull 5, [(1,11,3)]); (DAlias 2, [(2,22,0)])]);
              Arrive (mkChunk 2 (UAlias 1) 2 [(DAlias 1, [(3,33,1)]); (DAlias 2, [])]);
              ArriveMeta (0, 3, 100); ArriveMeta (1, 5, 101);
              Read false; Arrive (mkChunk 3 (UFull 8) 1 [(DAlias 9, [])]); Read false; Read false; Read false;
              ReadMeta false; ReadMeta false; AckTick true; Close] in
  let r := drun (dinit current [0; 1; 0] inbox_cap [4]) evs in
  small_history [4] evs /\ keeps_up [0; 1; 0] inbox_cap 0 0 false evs = true /\
  reads_of (snd r) =
    [(Some (1, 7, [(5, [(1,11,3)]); (5, [(2,22,0)])]), 0, [(1,7)], [(2,5)]);
     (Some (2, 7, [(4, [(3,33,1)]); (5, [])]), 0, [], []);
     (None, 2, [(2,8)], []);
     (None, 3, [], [])] /\
  metas_of (snd r) = [(Some (0, 100), 0); (Some (1, 101), 0)] /\ metaacks_of (snd r) = [3; 5].
Proof. vm_compute. repeat split; reflexivity. Qed.

(* non-vacuity for the corner inputs: the same data id pre-registered twice before a distinct one
   (aliases 1,2 -> 4 and 3 -> 6; the next new id gets 4), two filters naming the same source node,
   metadata of a node that is not subscribed (discarded) *)
Example c03_example_dups :
  let evs := [ArriveMeta (0, 3, 100); ArriveMeta (2, 5, 101); ArriveMeta (0, 7, 102);
              Arrive (mkChunk 1 (UFull 7) 1 [(DFull 9, [(1,11,3)]); (DAlias 3, [])]);
              Read false;
              Arrive (mkChunk 2 (UAlias 1) 2 [(DAlias 3, [(2,22,0)]); (DAlias 4, []); (DAlias 2, [])]);
              Read false; ReadMeta false; ReadMeta false; ReadMeta false] in
  let r := drun (dinit current [0; 0] inbox_cap [4; 4; 6]) evs in
  small_history [4; 4; 6] evs /\ keeps_up [0; 0] inbox_cap 0 0 false evs = true /\
  reads_of (snd r) =
    [(Some (1, 7, [(9, [(1,11,3)]); (6, [])]), 0, [(1,7)], [(4,9)]);
     (Some (2, 7, [(6, [(2,22,0)]); (9, []); (4, [])]), 0, [], [])] /\
  metas_of (snd r) = [(Some (0, 100), 0); (Some (0, 102), 0); (None, 3)] /\ metaacks_of (snd r) = [3; 7].
Proof. vm_compute. repeat split; reflexivity. Qed.

(* C06 - each request receives its own response; request ids are unique.
   Property theorems only, over the wire half of Model/Correlate.v (wire.ClientConn.sendRequest,
   readRequestLoop, the typed Send*Request wrappers, the request id generator), for EVERY history
   of Issue / Respond / Wake / Cancel events: any number of requests of any kinds in flight, the
   broker answering in any order, with duplicates and ids nobody waits for (a spurious response is
   a Respond whose id is not pending), and a context ending at any point, including the moment a
   response is already in the caller's channel (Wake and Cancel are separate scheduling events).
   Caller c is the c-th request issued on the connection (ConnectRequest = 0, pings included). *)
From Coq Require Import List NArith Bool.
From Iscp Require Import Lib.ListMap Model.Correlate Proofs.CorrelateProofs.
Import ListNotations.
Open Scope N_scope.

(* Ids: as long as no more than 2^31 requests (ConnectRequest and pings included) are issued on
   one wire connection, the i-th request carries id 2*i: all ids are even, below 2^32 and
   pairwise distinct.  (Beyond 2^31 requests the uint32 counter wraps and ids repeat.) *)
Theorem c06_ids_even_distinct : forall evs,
  N.of_nat (count_issues evs) <= two31 ->
  let ids := w_ids (wrun winit evs) in
  ids = map (fun i => 2 * N.of_nat i) (seq 0 (count_issues evs)) /\
  NoDup ids /\ Forall (fun x => N.even x = true /\ x < two32) ids.
Proof. exact ids_even_distinct. Qed.
Print Assumptions c06_ids_even_distinct.

(* Own response (refinement to one caller alone): in the full model, with every other caller,
   every response and every cancellation present, caller c has exactly the status that the
   one-caller specification [wspec] computes from the responses bearing c's own id and c's own
   Wake/Cancel events - nothing any other caller does or receives occurs in that specification. *)
Theorem c06_own_response : forall evs c,
  N.of_nat (count_issues evs) <= two31 ->
  wstatus_of (wrun winit evs) (N.of_nat c) = wspec (2 * N.of_nat c) c evs.
Proof. exact own_response. Qed.
Print Assumptions c06_own_response.

(* ... in particular what caller c returns is the payload of the FIRST response bearing id 2c that
   the dispatcher handles after c issued its request, and it has the type answering c's request. *)
Theorem c06_got_is_first : forall evs c ty m,
  N.of_nat (count_issues evs) <= two31 ->
  wstatus_of (wrun winit evs) (N.of_nat c) = Some (WGot ty m) ->
  exists kind rest, after_issue c evs = Some (kind, rest) /\ ty = kind /\
                    first_response (2 * N.of_nat c) rest = Some (ty, m).
Proof. exact got_is_first. Qed.
Print Assumptions c06_got_is_first.

(* Unknown ids: a response whose id is not pending leaves the whole state unchanged (for every
   state, reachable or not) ... *)
Theorem c06_unknown_ignored : forall s id ty m,
  lookup id (t_pend (w_tab s)) = None -> wstep s (Respond id ty m) = s.
Proof. exact unknown_ignored. Qed.
Print Assumptions c06_unknown_ignored.

(* ... and an id that has just been answered is no longer pending: a second response bearing the
   same id changes nothing, in every reachable state. *)
Theorem c06_duplicate_ignored : forall evs id ty m ty' m',
  let s := wrun winit evs in
  wstep (wstep s (Respond id ty m)) (Respond id ty' m') = wstep s (Respond id ty m).
Proof. exact duplicate_ignored. Qed.
Print Assumptions c06_duplicate_ignored.

(* ... and so does any number of further responses bearing that id, identical copies or not: none of
   them is delivered to anybody (the state, hence every caller's channel and status, is unchanged)
   and, by c06_dispatch_never_blocks below, none of them can block the dispatcher. *)
Theorem c06_duplicate_responses_ignored : forall evs id ty m (ps : list (N * N)),
  let s1 := wstep (wrun winit evs) (Respond id ty m) in
  wrun s1 (map (fun p => Respond id (fst p) (snd p)) ps) = s1.
Proof. exact duplicates_ignored. Qed.
Print Assumptions c06_duplicate_responses_ignored.

(* Cancellation is isolated: deleting every cancellation of caller c from the history changes the
   status of no other caller. *)
Theorem c06_cancel_isolated : forall evs c c',
  N.of_nat (count_issues evs) <= two31 -> c <> N.of_nat c' ->
  wstatus_of (wrun winit (drop_cancel c evs)) (N.of_nat c') = wstatus_of (wrun winit evs) (N.of_nat c').
Proof. exact cancel_isolated. Qed.
Print Assumptions c06_cancel_isolated.

(* The dispatcher's `replyCh <- msg // non blocking` never blocks: for every history, without any
   bound (not even on the number of requests). *)
Theorem c06_dispatch_never_blocks : forall evs, w_stuck (wrun winit evs) = false.
Proof. exact never_blocks. Qed.
Print Assumptions c06_dispatch_never_blocks.

(* No crash, with NO hypothesis on the broker: whatever message types the responses have, no caller
   ever panics (F15 repaired: the typed wrappers check the type of the response). *)
Theorem c06_never_panics : forall evs c,
  N.of_nat (count_issues evs) <= two31 ->
  wstatus_of (wrun winit evs) (N.of_nat c) <> Some WPanicked.
Proof. exact never_panics. Qed.
Print Assumptions c06_never_panics.

(* Under broker_wf (every response bearing c's id has the message type that answers c's request)
   c is never handed the malformed-message error either. *)
Theorem c06_no_malformed_under_wf : forall evs c,
  N.of_nat (count_issues evs) <= two31 ->
  (forall kind rest ty m, after_issue c evs = Some (kind, rest) ->
                          In (Respond (2 * N.of_nat c) ty m) rest -> ty = kind) ->
  wstatus_of (wrun winit evs) (N.of_nat c) <> Some WMalformed.
Proof. exact no_malformed_under_wf. Qed.
Print Assumptions c06_no_malformed_under_wf.

(* A wrong-typed response bearing a pending id (the former F15 witness: an UpstreamCloseResponse,
   tag 4, for a pending UpstreamMetadata request, kind 8) surfaces as the malformed-message error
   to exactly that caller.  The former code panicked here. *)
Theorem c06_wrong_type_is_error :
  wstatus_of (wrun winit [Issue 0; Issue 8; Respond 2 4 7; Wake 1]) 1 = Some WMalformed.
Proof. exact wrong_type_is_error. Qed.
Print Assumptions c06_wrong_type_is_error.

(* non-vacuity: ConnectRequest, a ping and three requests in flight; the broker answers in the
   order 8, 4, 6 with a duplicate of 4 and two unknown ids; caller 3 is cancelled before its (late)
   answer; every caller ends with its own marker *)
Example c06_example :
  let evs := [Issue 0; Issue 1; Respond 2 1 0; Wake 1; Issue 2; Issue 5; Issue 8;
              Respond 8 8 108; Wake 4; Respond 7 2 999; Respond 4 2 104; Wake 2; Respond 4 2 555;
              Cancel 3; Respond 6 5 106; Wake 3; Respond 4096 8 1] in
  let s := wrun winit evs in
  w_ids s = [0; 2; 4; 6; 8] /\
  map (wstatus_of s) [0; 1; 2; 3; 4] =
    [Some WUnrouted; Some (WGot 1 0); Some (WGot 2 104); Some WCancelled; Some (WGot 8 108)] /\
  c06_ok (mkWireCase evs (w_ids s) (map (fun c => wstatus_of s (N.of_nat c)) (seq 0 5))) = true.
Proof. vm_compute. repeat split. Qed.

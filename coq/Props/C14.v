(* C14 - datagram messages are reassembled exactly or not at all.
   Property theorems only; each is closed by [exact] of a lemma of Proofs/SegmentProofs.v. *)
From Coq Require Import List NArith Bool Arith.
From Iscp Require Import Lib.ListMap Lib.Bytes Model.Segment Proofs.SegmentProofs Model.Framing Proofs.FramingProofs.
Import ListNotations.
Open Scope N_scope.

(* For every payload size P > 0, message m the sender accepts, and every history of
   received datagrams - in any order, interleaved with any other datagrams (other sequence
   numbers, malformed, too short), received at any times - in which each segment of m occurs
   at most once: what the receiver hands up for m's sequence number is exactly [m] if all
   segments are in the history and nothing otherwise (never partial, never mixed). Applied
   to every prefix of a history this also says the message is handed up exactly when the
   last segment arrives. *)
Theorem c14_reassembly : forall P ex s m ds,
  0 < P -> s < 4294967296 -> split P s m = Some ds ->
  forall evs : list (N * list N),
    NoDup (mine_raws s evs) ->
    incl (mine_raws s evs) (map encode_dgram ds) ->
    outs_for s (snd (srun ex [] (recv_events evs))) =
      if (length (mine_raws s evs) =? length ds)%nat then [m] else [].
Proof. exact reassembly. Qed.
Print Assumptions c14_reassembly.

(* the sender accepts exactly the messages of at most 65536 segments *)
Theorem c14_oversize_refused : forall P s m,
  split P s m = None <-> (P < N.of_nat (length m) /\ 65535 < N.of_nat (length m) / P).
Proof. exact split_refuses. Qed.
Print Assumptions c14_oversize_refused.

(* what the sender emits: n+1 segments with indices 0..n, announced maximum n, whose
   payloads concatenate to the message *)
Theorem c14_split_shape : forall P s m ds,
  0 < P -> split P s m = Some ds ->
  exists pieces n, length pieces = S n /\ concat pieces = m /\ N.of_nat n <= 65535 /\
                   ds = map (seg_of s n pieces) (seq 0 (S n)).
Proof. exact split_spec. Qed.
Print Assumptions c14_split_shape.

(* header layout round trip *)
Theorem c14_header_roundtrip : forall d, header_ok d -> decode_dgram (encode_dgram d) = Some d.
Proof. exact decode_encode_dgram. Qed.
Print Assumptions c14_header_roundtrip.

(* malformed datagrams: shorter than the header -> nothing changes, nothing handed up *)
Theorem c14_short_discarded : forall ex now bs raw,
  (length raw < 8)%nat -> receive ex now bs raw = (bs, None).
Proof. exact short_discarded. Qed.
Print Assumptions c14_short_discarded.

(* index beyond the announced count (first datagram of its sequence number) -> nothing handed up *)
Theorem c14_bad_index_discarded : forall ex now bs d,
  lookup (d_seq d) bs = None -> d_max d < d_idx d -> snd (receive_d ex now bs d) = None.
Proof. exact bad_index_no_output. Qed.
Print Assumptions c14_bad_index_discarded.

(* expiry: every receive re-arms the buffer's deadline to now+ex, and RemoveExpired forgets
   every buffer whose deadline has passed *)
Theorem c14_expiry_armed : forall ex now bs d b,
  lookup (d_seq d) (fst (receive_d ex now bs d)) = Some b -> r_exp b = now + ex.
Proof. exact receive_sets_expiry. Qed.
Print Assumptions c14_expiry_armed.

Theorem c14_expiry_forgets : forall now bs s b,
  lookup s bs = Some b -> (forall k v, In (k, v) bs -> k = s -> r_exp v < now) ->
  lookup s (expire now bs) = None.
Proof. exact expire_forgets. Qed.
Print Assumptions c14_expiry_forgets.

(* sender sequence numbers: first is 0, no repeat within any window of 2^32 messages *)
Theorem c14_seq_first : seq_next seq_init = 0.
Proof. exact seq_first. Qed.
Theorem c14_seq_wrap : forall i j s, s < 4294967296 ->
  (i < j)%nat -> N.of_nat j - N.of_nat i < 4294967296 ->
  Nat.iter i seq_next s <> Nat.iter j seq_next s.
Proof. exact seq_injective_window. Qed.
Print Assumptions c14_seq_wrap.

(* non-vacuity: a 3-segment message, segments arriving 2,0,1 interleaved with another message
   and a short datagram *)
Example c14_example :
  let P := 2 in let m := [1;2;3;4;5] in
  match split P 7 m with
  | Some ds =>
      let raws := map encode_dgram ds in
      let evs := [(0, nth 2 raws []); (1, [9;9]); (2, encode_dgram (mkD 8 0 0 [42]));
                  (3, nth 0 raws []); (4, nth 1 raws [])] in
      length ds = 3%nat /\
      map (option_map snd) (snd (srun 10 [] (recv_events evs))) = [None; None; Some [42]; None; Some m]
  | None => False
  end.
Proof. vm_compute. split; reflexivity. Qed.

(* Histories that also contain the receiver's cleaner ticks (expiry [ex], any arrival times):
   as long as every tick comes no later than [ex] after the latest datagram of sequence number
   [s] ([timely]), what is handed up for [s] is what the tick-free history hands up - the whole
   message exactly once when all its segments are in, nothing otherwise.  Other traffic and
   malformed datagrams are arbitrary.  (The default expiry of transport/quic is tied to the
   documented 10 s by the timed cases of h-quicfake.) *)
Theorem c14_reassembly_timely_ticks : forall P ex s m ds,
  0 < P -> s < 4294967296 -> split P s m = Some ds ->
  forall evs : list sev, timely s ex None evs ->
    NoDup (mine_raws s (strip evs)) -> incl (mine_raws s (strip evs)) (map encode_dgram ds) ->
    outs_for s (snd (srun ex [] evs)) =
      if (length (mine_raws s (strip evs)) =? length ds)%nat then [m] else [].
Proof. exact reassembly_with_timely_ticks. Qed.
Print Assumptions c14_reassembly_timely_ticks.

(* A datagram for an ALREADY OPEN buffer whose index lies beyond that buffer's size (the size was
   fixed by the first datagram of the message) is discarded whatever max index it announces:
   nothing is handed up, slots and count stay as they are, only the deadline is re-armed. *)
Theorem c14_open_buffer_bad_index_discarded : forall ex now (bs : buffers) d b,
  lookup (d_seq d) bs = Some b -> N.of_nat (length (r_slots b)) <= d_idx d ->
  receive_d ex now bs d = (insert (d_seq d) (mkR (r_cnt b) (r_slots b) (now + ex)) bs, None).
Proof. exact open_buffer_bad_index_discarded. Qed.
Print Assumptions c14_open_buffer_bad_index_discarded.

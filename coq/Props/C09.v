(* C09 - Concurrent use of connection, streams and transports is free of data races.
   Property theorems only.  The static theorems live in Props/C09static.v and are restated here;
   the dynamic part is the -race harness h-race (not a proof: it searches for failing schedules),
   whose reports are judged against the generated table by [race_judge_with known_race_sites]. *)
From Coq Require Import List String NArith Bool Arith.
From Iscp Require Import Model.LockCfg Model.Lockset Proofs.LocksetProofs Gen.Guards Props.C09static.
Import ListNotations.
Open Scope list_scope.

(* Eraser-style soundness for every guard assignment and every interleaving of any number of
   threads: under the lockset discipline two conflicting accesses of different threads are always
   separated by release-of-the-guard ... acquire-of-the-guard (ordered by the lock's
   happens-before edge) *)
Theorem c09_lockset_discipline_sound : forall guard pre t1 a1 mid t2 a2 post x,
  disciplined guard init_locks (pre ++ (t1, a1) :: mid ++ (t2, a2) :: post) = true ->
  t1 <> t2 -> conflicting a1 a2 x ->
  exists A B C m1 m2, mid = A ++ (t1, ARel (guard x) m1) :: B ++ (t2, AAcq (guard x) m2) :: C.
Proof. exact c09_lockset_sound. Qed.
Print Assumptions c09_lockset_discipline_sound.

(* ... and are never simultaneously enabled *)
Theorem c09_no_simultaneous_conflict : forall guard tr s t1 t2 a1 a2 x,
  run init_locks tr = Some s -> t1 <> t2 -> conflicting a1 a2 x ->
  access_ok guard s (t1, a1) = true -> access_ok guard s (t2, a2) = true -> False.
Proof. exact c09_no_simultaneous. Qed.
Print Assumptions c09_no_simultaneous_conflict.

(* THE OBLIGATIONS over the table regenerated from the source: every non-constructor access of
   every enforced field of the guard map holds its guard (entry summaries re-checked at every
   call edge), every field is exercised, and the suspected fields obey the discipline at every
   access outside the listed sites *)
Theorem c09_guarded_fields :
  discipline_ok specs summaries call_edges accesses = true /\
  specs_exercised specs accesses = true /\
  discipline_ok_modulo known_race_sites suspected_specs summaries call_edges suspected_accesses = true.
Proof. exact (conj c09_discipline (conj c09_specs_exercised c09_discipline_suspected_modulo_known)). Qed.
Print Assumptions c09_guarded_fields.

(* the suspected fields really violate the discipline (the exclusion hides nothing else): without
   the exclusion list the check fails - when the races are repaired in /repo this stops compiling,
   which is the reminder to move the fields to "enforced" *)
Theorem c09_suspected_refuted :
  discipline_ok suspected_specs summaries call_edges suspected_accesses = false.
Proof. vm_compute. reflexivity. Qed.
Print Assumptions c09_suspected_refuted.

(* the judge of the -race harness: a clean run passes; a report through a listed site is a
   property violation that agrees with the static table; a report through no listed site also
   breaks the correspondence (the guard map is incomplete) *)
Example c09_example_judge :
  race_judge_with known_race_sites (mkRace [] [] 0) = 0%N /\
  race_judge_with known_race_sites
    (mkRace ["iscp.Upstream.resume"; "iscp.Conn.OpenUpstream$3"]%string
            ["iscp.Upstream.sendChunkAndWaitAck"]%string 3) = 2%N /\
  (* the pair repaired by d6c2f47 is no longer listed: its return would be a new violation that
     also breaks the correspondence with the guard map *)
  race_judge_with known_race_sites
    (mkRace ["wire.ClientConn.SendUpstreamChunk"]%string ["wire.ClientConn.openUpstream"]%string 1) = 3%N /\
  (25 <=? List.length known_race_sites)%nat = true.
Proof. vm_compute. repeat split; reflexivity. Qed.

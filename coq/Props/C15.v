(* C15 - keepalive detects a dead peer in bounded time and never drops a live one.
   Property theorems only, over Model/KeepAlive.v: the timed automaton of
   wire.ClientConn.keepAliveLoop / readPingLoop / readRequestLoop and the connect request fields.
   Time is the model clock (one EMs event = one unit; the harness uses milliseconds); every
   theorem is for ALL event lists, i.e. all interleavings of clock ticks, pong deliveries, broker
   pings, application requests/messages, inbound traffic, Close by the owner and link failure.
   Real time (goroutine scheduling, runtime timers, a transport Write that blocks) is outside the
   theorems and only checked against bound + slack by go/cmd/h-keepalive: level "proof, partial". *)
From Coq Require Import List NArith Bool.
From Iscp Require Import Lib.ListMap Model.KeepAlive Proofs.KeepAliveProofs.
Import ListNotations.
Open Scope N_scope.

(* The model clock: after any history the clock shows the number of EMs events, so "count_ms pre"
   below is the model time T at the end of [pre]. *)
Theorem c15_clock : forall I TO evs, k_now (fst (krun I TO kinit evs)) = count_ms evs.
Proof. intros. exact (now_run I TO evs kinit). Qed.
Print Assumptions c15_clock.

(* Detection.  Let [pre] be any history after which the keepalive loop is running (it has started
   and has not panicked) and T = count_ms pre.  If no response is delivered after T - whatever else
   happens: application traffic, broker pings, link failure, Close - then once interval + timeout
   units have passed the connection context is cancelled (absorbing, so it happened no later than
   T + interval + timeout), and it was cancelled by the loop itself (OClose = "Ping timeout,
   disconnect", c.Close()) unless it was closed already or the owner called Close meanwhile.
   Cancelling the context is what Conn.observeConnClose waits for to start the reconnect. *)
Theorem c15_detection : forall I TO pre post,
  0 < I ->
  k_ctl (fst (krun I TO kinit pre)) <> KNotStarted /\ k_ctl (fst (krun I TO kinit pre)) <> KPanicked ->
  (forall e, In e post -> is_response e = false) ->
  I + TO <= count_ms post ->
  k_closed (fst (krun I TO kinit (pre ++ post))) = true /\
  (k_closed (fst (krun I TO kinit pre)) = true \/ In EAppClose post \/
   In OClose (snd (krun I TO (fst (krun I TO kinit pre)) post))).
Proof. exact detection. Qed.
Print Assumptions c15_detection.

(* No false positive.  If every ping the loop writes is answered by a pong with its request id
   delivered strictly within the timeout ([answered]: fewer than TO clock events between the ping
   and the delivery of its pong), the broker never answers a ping with another response type
   ([well_typed], broker_wf: such a response makes sendPing fail and the loop close), transport
   writes succeed, and fewer than 2^31 application requests
   are sent (request ids are 32-bit: beyond, an application request can take over the reply slot
   of a pending ping), then for ANY interleaving with application requests and messages, inbound
   traffic, broker pings, stale or duplicated pongs and Close by the owner: the loop never gives
   the connection up, never panics, and the context is cancelled only by the owner's Close. *)
Theorem c15_no_false_positive : forall I TO evs,
  0 < I -> 0 < TO ->
  answered I TO kinit evs -> well_typed I TO kinit evs -> ~ In ELinkFail evs ->
  count_appreq evs + 1 < two31 ->
  ~ In OClose (snd (krun I TO kinit evs)) /\ ~ In OPanic (snd (krun I TO kinit evs)) /\
  (k_closed (fst (krun I TO kinit evs)) = true -> In EAppClose evs).
Proof. exact no_false_positive. Qed.
Print Assumptions c15_no_false_positive.

(* Pong echo.  The pongs the client writes are, in every history, a subsequence of the broker's
   pings (same request ids, same order, none invented, none twice); as long as the connection is
   open and writes succeed they are exactly the broker's pings. *)
Theorem c15_pong_echo : forall I TO evs,
  subseq (pongs_of (snd (krun I TO kinit evs))) (bpings evs) /\
  (k_closed (fst (krun I TO kinit evs)) = false -> k_link (fst (krun I TO kinit evs)) = true ->
   pongs_of (snd (krun I TO kinit evs)) = bpings evs).
Proof. intros. split; [apply echo_subseq|apply echo_run]. Qed.
Print Assumptions c15_pong_echo.

(* Announced values.  The ConnectRequest carries uint32(seconds) of the configured interval and
   timeout (10 s / 1 s when the configured value is 0): the whole seconds (floor) of any duration
   below 2^32 s, the seconds mod 2^32 beyond; the loop itself runs with the configured values at
   full resolution.  (uint32(d.Seconds()) goes through float64: it equals this floor for whole
   seconds and for every d < 2^24 s - [dur_exact]; see the report for d >= 2^24 s.) *)
Theorem c15_announced_values : forall c,
  let i := if cf_interval c =? 0 then default_interval_ns else cf_interval c in
  let t := if cf_timeout c =? 0 then default_timeout_ns else cf_timeout c in
  announced c = ((i / ns_per_s) mod two32, (t / ns_per_s) mod two32) /\
  client_interval c = i /\ client_timeout c = t /\
  (forall d, d < two32 * ns_per_s ->
     dur_to_sec d * ns_per_s <= d /\ d < (dur_to_sec d + 1) * ns_per_s) /\
  (forall n, dur_to_sec (n * ns_per_s) = n mod two32).
Proof.
  intros c. split; [apply announced_eq|]. split; [apply client_params|]. split; [apply client_params|].
  split; [exact dur_to_sec_floor|exact dur_to_sec_whole].
Qed.
Print Assumptions c15_announced_values.

(* ---- non-vacuity ---- *)

(* a live peer: interval 3, timeout 5; three pings answered within the timeout (the second pong
   only after the next tick, so the third ping leaves at once), interleaved with two application
   requests and a response, chunk traffic, a broker ping, a stale pong: the hypotheses of
   c15_no_false_positive hold and the loop stays *)
Example c15_example_alive :
  let evs := [EAppReq; EStart; EAppMsg; EMs; EPong 4; EResp 2; EMs; EBrokerPing 9; EMs; EMs; EAppReq;
              EMs; EMs; EPong 4; EMs; EPong 6; EAppMsg; EMs; EPong 10] in
  answered 3 5 kinit evs /\ well_typed 3 5 kinit evs /\ ~ In ELinkFail evs /\
  snd (krun 3 5 kinit evs) = [OReq 2; OPing 4; OMsg; OReply 2; OPong 9; OPing 6; OReq 8; OPing 10; OMsg] /\
  k_closed (fst (krun 3 5 kinit evs)) = false.
Proof.
  cbv zeta. split; [apply answeredb_sound; vm_compute; reflexivity|].
  split; [apply well_typedb_sound; vm_compute; reflexivity|].
  split.
  { intros H. repeat (destruct H as [H|H]; [discriminate H|]). exact H. }
  vm_compute. repeat split.
Qed.

(* a dead peer, and the bound is attained: interval 3, timeout 2, the first pong is delivered at
   T = 0; the next ping leaves at T + interval and times out at exactly T + interval + timeout *)
Example c15_example_dead :
  let pre := [EStart; EPong 2] in
  k_closed (fst (krun 3 2 kinit (pre ++ [EMs; EAppMsg; EMs; EBrokerPing 7; EMs; EMs]))) = false /\
  k_closed (fst (krun 3 2 kinit (pre ++ [EMs; EAppMsg; EMs; EBrokerPing 7; EMs; EMs; EMs]))) = true /\
  snd (krun 3 2 kinit (pre ++ [EMs; EAppMsg; EMs; EBrokerPing 7; EMs; EMs; EMs])) =
    [OPing 2; OMsg; OPong 7; OPing 4; OClose].
Proof. vm_compute. repeat split. Qed.

(* the model fails where the code does: a non-positive ticker interval panics in time.NewTicker; a
   response of another type under a ping's request id makes sendPing fail (typedResponse, since the
   repair of finding F15) and the loop gives a live connection up - hence [well_typed] above *)
Example c15_example_failures :
  snd (krun 0 2 kinit [EStart]) = [OPanic] /\
  snd (krun 3 2 kinit [EStart; EResp 2]) = [OPing 2; OClose].
Proof. vm_compute. split; reflexivity. Qed.

(* 1500 ms is announced as 1 s, 999 ms as 0 s, 2 h as 7200 s, 0 as the default *)
Example c15_example_announced :
  announced (mkConf 1500000000 999000000) = (1, 0) /\
  announced (mkConf 7200000000000 0) = (7200, 1) /\
  announced (mkConf 0 1000000000) = (10, 1) /\
  announced (mkConf (4294967297 * ns_per_s) (2 * ns_per_s - 1)) = (1, 1).
Proof. vm_compute. repeat split. Qed.

(* C11 - every message survives encode/decode in both encodings, field by field; the enum
   mappings are total.  Property theorems only; each is closed by [exact] of a lemma of
   Proofs/CodecProofs.v.  Model: Model/Codec.v; generated tables: Gen/Enums.v (T1), Gen/Conv.v (T2). *)
From Coq Require Import String List NArith ZArith Bool Lia.
From Iscp Require Import Gen.Enums Gen.Conv Model.Codec Proofs.CodecProofs.
Import ListNotations.
Open Scope Z_scope.

(* Generic, for ALL conversion terms and ALL values: if (c, c') is syntactically a forward/backward
   pair and v lies in the documented domain of c (durations within the wire range, 16-byte uuids,
   times within int64 nanoseconds, known enum constants, required oneofs present), then converting
   forward and back yields exactly the canonical form of v (durations truncated to the wire unit,
   times in UTC, absent collections empty, NormalClosure as Succeeded). *)
Theorem c11_conv_roundtrip : forall c c' v,
  inverse_pair c c' = true -> in_range c v = true ->
  obind (eval c v) (eval c') = Ok (canon c v).
Proof. exact conv_roundtrip. Qed.
Print Assumptions c11_conv_roundtrip.

(* The two converters of the source (all 29 message types, every nested type) ARE such a pair, and
   - from the facts T2 extracts from the current source - every declared field of every wire struct
   is read by wire_to_proto.go and written by proto_to_wire.go, every field of every proto struct is
   written by the former and read by the latter, the type switches cover exactly the types that
   implement Message, and the arities of the model terms are those of the declared structs. *)
Theorem c11_all_messages_inverse : inverse_pair w2p_msg p2w_msg = true /\ source_facts = true.
Proof. exact all_messages_inverse_and_covered. Qed.
Print Assumptions c11_all_messages_inverse.

(* decode (encode m) = canon m for every message in the domain, for ANY byte layer that returns
   the structure it was given (hypothesis, premise of the theorem: gogo-protobuf / jsonpb on
   well-formed structures); the reported byte counts are the buffer length on both sides *)
Theorem c11_roundtrip : forall (marshal : value -> option (list N)) (unmarshal : list N -> option value)
    (wf : value -> Prop),
  (forall p, wf p -> exists bs, marshal p = Some bs /\ unmarshal bs = Some p) ->
  forall (rec_enc rec_dec : bool) m,
    in_range w2p_msg m = true ->
    (forall p, eval w2p_msg m = Ok p -> wf p) ->
    exists bs, encode_to marshal rec_enc m = Ok (bs, Z.of_nat (length bs)) /\
               decode_from unmarshal rec_dec bs = Ok (Z.of_nat (length bs), canon w2p_msg m).
Proof. exact codec_roundtrip. Qed.
Print Assumptions c11_roundtrip.

(* both encodings decode to the same message *)
Theorem c11_encodings_agree : forall (m1 : value -> option (list N)) (u1 : list N -> option value) (wf1 : value -> Prop)
    (m2 : value -> option (list N)) (u2 : list N -> option value) (wf2 : value -> Prop) (re1 rd1 re2 rd2 : bool) m,
  (forall p, wf1 p -> exists bs, m1 p = Some bs /\ u1 bs = Some p) ->
  (forall p, wf2 p -> exists bs, m2 p = Some bs /\ u2 bs = Some p) ->
  in_range w2p_msg m = true ->
  (forall p, eval w2p_msg m = Ok p -> wf1 p /\ wf2 p) ->
  exists b1 b2 d,
    encode_to m1 re1 m = Ok (b1, Z.of_nat (length b1)) /\ decode_from u1 rd1 b1 = Ok (Z.of_nat (length b1), d) /\
    encode_to m2 re2 m = Ok (b2, Z.of_nat (length b2)) /\ decode_from u2 rd2 b2 = Ok (Z.of_nat (length b2), d) /\
    d = canon w2p_msg m.
Proof. exact encodings_agree. Qed.
Print Assumptions c11_encodings_agree.

(* byte counts, for every input (in the domain or not): whatever EncodeTo / DecodeFrom report on
   success is the length of the buffer produced / consumed; and the count expressions in the
   source are the ones the model transliterates *)
Theorem c11_byte_counts :
  (forall marshal re m bs n, encode_to marshal re m = Ok (bs, n) -> n = Z.of_nat (length bs)) /\
  (forall unmarshal rd bs n m, decode_from unmarshal rd bs = Ok (n, m) -> n = Z.of_nat (length bs)) /\
  wrapper_facts = true.
Proof. exact (conj encode_count (conj decode_count wrapper_facts_hold)). Qed.
Print Assumptions c11_byte_counts.

(* enum mappings, on the tables T1 generates from the switch statements: every library result
   code / QoS maps to a declared wire constant; every wire constant is the image of a library
   constant and maps back to a constant that maps to it; the only two library constants that
   share a wire value are Succeeded and NormalClosure (wire value 0) *)
Theorem c11_enum_total :
  ((forall k, In k (vals lib_result_codes) -> exists w, lookupZ k rc_w2p = Some w /\ In w (vals wire_result_codes)) /\
   (forall w, In w (vals wire_result_codes) ->
      (exists k, In k (vals lib_result_codes) /\ lookupZ k rc_w2p = Some w) /\
      (exists k, lookupZ w rc_p2w = Some k /\ In k (vals lib_result_codes) /\ lookupZ k rc_w2p = Some w))) /\
  ((forall k, In k (vals lib_qos) -> exists w, lookupZ k qos_w2p = Some w /\ In w (vals wire_qos)) /\
   (forall w, In w (vals wire_qos) ->
      (exists k, In k (vals lib_qos) /\ lookupZ k qos_w2p = Some w) /\
      (exists k, lookupZ w qos_p2w = Some k /\ In k (vals lib_qos) /\ lookupZ k qos_w2p = Some w))) /\
  (collisions lib_result_codes rc_w2p =
     [("ResultCodeSucceeded", "ResultCodeNormalClosure"); ("ResultCodeNormalClosure", "ResultCodeSucceeded")]%string
   /\ lookupZ 1 rc_w2p = Some 0 /\ lookupZ 2 rc_w2p = Some 0 /\ collisions lib_qos qos_w2p = []).
Proof. exact enum_total. Qed.
Print Assumptions c11_enum_total.

(* per-primitive facts with their explicit ranges *)
Theorem c11_duration_seconds : forall d,
  0 <= d -> d / 1000000000 < 4294967296 -> (d < 16777216 * 1000000000 \/ d mod 1000000000 = 0) ->
  eval SecToDur (VInt (Z.quot d 1000000000 mod 4294967296)) = Ok (VInt (d - d mod 1000000000)).
Proof.
  intros d H0 H1 H2. cbn [eval eval_prim_int]. f_equal. f_equal.
  pose proof (dur_sec_roundtrip d) as R. pose proof (dur_sec_canon d H0) as C.
  unfold dur_sec_okb, e9, two32 in *. rewrite R; [exact C|]. destruct H2; lia.
Qed.
Print Assumptions c11_duration_seconds.

Theorem c11_uuid_string : forall u,
  length u = 16%nat -> bytes_okb u = true -> parse_uuid (uuid_string u) = Some u.
Proof. exact parse_uuid_string. Qed.
Print Assumptions c11_uuid_string.

(* non-vacuity: an UpstreamOpenResponse with a zoned server time, a NormalClosure result code, a
   nil alias map: in the domain, and the round trip computes to its canonical form *)
Example c11_example :
  let m := VOneof 4 (VStruct [VInt 7; VBytes (repeat 171%N 16); VInt 3; VInt 2; VBytes [111%N; 107%N];
                              VTime 1700000000123456789 false; VNil; VStruct []]) in
  in_range w2p_msg m = true /\
  model_roundtrip m = Ok (VOneof 4 (VStruct [VInt 7; VBytes (repeat 171%N 16); VInt 3; VInt 1; VBytes [111%N; 107%N];
                                             VTime 1700000000123456789 true; VMap []; VStruct []])) /\
  model_roundtrip m = Ok (canon w2p_msg m).
Proof. vm_compute. repeat split; reflexivity. Qed.

(* C20 - Flush is a barrier and flush policies cut chunks exactly where they promise.
   Property theorems only, over Model/Upstream.v. *)
From Coq Require Import List NArith Bool.
From Iscp Require Import Lib.ListMap Model.Upstream Proofs.UpstreamProofs.
Import ListNotations.
Open Scope N_scope.

(* every reachable state satisfies the bookkeeping invariant (sorted buffer, counters exact) *)
Theorem c20_invariant : forall pol rev0 ops, inv (r_state (urun (uinit pol rev0) ops)).
Proof.
  intros pol rev0 ops. generalize (inv_init pol rev0). generalize (uinit pol rev0).
  induction ops as [|o ops IH]; intros s H; [exact H|].
  destruct (urun_cons s o ops) as (_ & _ & _ & ->). apply IH. now apply inv_step.
Qed.
Print Assumptions c20_invariant.

(* Barrier: when Flush returns nil on a reachable state, the visible buffer is empty ... *)
Theorem c20_flush_barrier_buffer : forall s, u_closed s = false ->
  snd (ustep s Flush) = 0 -> u_buf (fst (fst (ustep s Flush))) = [].
Proof. exact flush_barrier_step. Qed.
Print Assumptions c20_flush_barrier_buffer.

(* ... hence, by conservation, every point accepted before the call is in a chunk (whose
   sequence number is at most the last issued one by c01_numbering). *)
Theorem c20_flush_barrier : forall pol rev0 ops id,
  let r := urun (uinit pol rev0) (ops ++ [Flush]) in
  u_buf (r_state r) = [] ->
  chunks_pts id (chunks_of (r_outs r)) = accepted_pts id (ops ++ [Flush]) (r_rets r).
Proof.
  intros pol rev0 ops id r Hb.
  pose proof (conservation id (ops ++ [Flush]) (uinit pol rev0) (inv_init pol rev0)) as H.
  cbn zeta in H. fold r in H. rewrite Hb in H. cbn in H. now rewrite app_nil_r in H.
Qed.
Print Assumptions c20_flush_barrier.

(* none / interval policies: a write never causes a transmission *)
Theorem c20_none_policy : forall s k ps, (u_pol s = PNone \/ u_pol s = PInterval) ->
  snd (fst (ustep s (Write k ps))) = [].
Proof. exact none_policy_silent. Qed.
Print Assumptions c20_none_policy.

(* size policies (and every other): a write is cut exactly when the policy's predicate holds of
   the buffered payload including this write, and then the chunk contains everything buffered *)
Theorem c20_size_policy : forall s k ps, inv s -> u_closed s = false ->
  let r := ustep s (Write k ps) in
  let b1 := buf_add k ps (u_buf s) in
  let size1 := buf_size (u_buf s) + sum_len ps in
  (is_flush (u_pol s) size1 = false -> snd (fst r) = [] /\ u_buf (fst (fst r)) = b1) /\
  (is_flush (u_pol s) size1 = true ->
     flush_fails (mkU b1 size1 (u_count s + N.of_nat (length ps)) (u_seq s) (u_total s) (u_rev s) (u_pol s) false (u_failed s)) = false ->
     u_buf (fst (fst r)) = [] /\
     chunks_of (snd (fst r)) = [(u_seq s + 1, map (to_wgroup (u_rev s)) b1, unaliased_ids (u_rev s) b1)]).
Proof. exact write_cut. Qed.
Print Assumptions c20_size_policy.

(* immediate policy: every accepted write is cut on its own *)
Theorem c20_immediate : forall s k ps, inv s -> u_pol s = PImmediate -> u_closed s = false ->
  flush_fails (mkU (buf_add k ps (u_buf s)) (u_size s + sum_len ps) (u_count s + N.of_nat (length ps)) (u_seq s) (u_total s) (u_rev s) (u_pol s) false (u_failed s)) = false ->
  length (chunks_of (snd (fst (ustep s (Write k ps))))) = 1%nat /\ u_buf (fst (fst (ustep s (Write k ps)))) = [].
Proof. exact immediate_cuts. Qed.
Print Assumptions c20_immediate.

(* interval policies: a tick leaves nothing buffered, so no accepted point survives two ticks *)
Theorem c20_interval : forall s, u_closed s = false ->
  u_failed (fst (fst (ustep s Tick))) = false -> u_buf (fst (fst (ustep s Tick))) = [].
Proof. exact tick_empties. Qed.
Print Assumptions c20_interval.

(* state snapshot: points reported sent + points reported buffered = points accepted *)
Theorem c20_state_conservation : forall pol rev0 ops,
  let r := urun (uinit pol rev0) ops in
  u_total (r_state r) + buf_count (u_buf (r_state r)) = accepted_count ops (r_rets r).
Proof.
  intros pol rev0 ops. pose proof (state_conservation ops (uinit pol rev0) (inv_init pol rev0)) as H.
  cbn zeta in H. exact H.
Qed.
Print Assumptions c20_state_conservation.

(* no chunk is ever cut empty (no groups) *)
Theorem c20_no_empty_chunk : forall pol rev0 ops c,
  In c (chunks_of (r_outs (urun (uinit pol rev0) ops))) -> snd (fst c) <> [].
Proof. intros pol rev0 ops. apply no_empty_chunk. Qed.
Print Assumptions c20_no_empty_chunk.

(* non-vacuity: size policy with threshold 4: the third write crosses it *)
Example c20_example :
  let ops := [Write 1 [(1,1,2)]; Write 2 [(2,2,2)]; Write 1 [(3,3,1)]; Write 1 [(4,4,0)]; Flush] in
  let r := urun (uinit (PSize 4) []) ops in
  map (fun s => fst (fst s)) (r_snaps r) = [0; 0; 1; 1; 2] /\ r_rets r = [0; 0; 0; 0; 0].
Proof. vm_compute. split; reflexivity. Qed.

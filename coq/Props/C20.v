(* C20 - Flush is a barrier and flush policies cut chunks exactly where they promise.
   Property theorems only, over Model/Upstream.v. *)
From Coq Require Import List NArith Bool.
From Iscp Require Import Lib.ListMap Model.Upstream Proofs.UpstreamProofs.
Import ListNotations.
Open Scope N_scope.

(* every reachable state satisfies the bookkeeping invariant (sorted buffer, counters exact) *)
Theorem c20_invariant : forall pol rev0 ops, inv (r_state (urun (uinit pol rev0) ops)).
Proof.
  intros pol rev0 ops. generalize (inv_init pol rev0). generalize (uinit pol rev0).
  induction ops as [|o ops IH]; intros s H; [exact H|].
  destruct (urun_cons s o ops) as (_ & _ & _ & ->). apply IH. now apply inv_step.
Qed.
Print Assumptions c20_invariant.

(* Barrier: when Flush returns nil on a reachable state, the visible buffer is empty ... *)
Theorem c20_flush_barrier_buffer : forall s, u_closed s = false ->
  snd (ustep s Flush) = 0 -> u_buf (fst (fst (ustep s Flush))) = [].
Proof. exact flush_barrier_step. Qed.
Print Assumptions c20_flush_barrier_buffer.

(* ... hence, by conservation, every point accepted before the call is in a chunk (whose
   sequence number is at most the last issued one by c01_numbering). *)
Theorem c20_flush_barrier : forall pol rev0 ops id,
  let r := urun (uinit pol rev0) (ops ++ [Flush]) in
  u_buf (r_state r) = [] ->
  chunks_pts id (chunks_of (r_outs r)) = accepted_pts id (ops ++ [Flush]) (r_rets r).
Proof.
  intros pol rev0 ops id r Hb.
  pose proof (conservation id (ops ++ [Flush]) (uinit pol rev0) (inv_init pol rev0)) as H.
  cbn zeta in H. fold r in H. rewrite Hb in H. cbn in H. now rewrite app_nil_r in H.
Qed.
Print Assumptions c20_flush_barrier.

(* The barrier per data id, for ANY history (in particular any linearisation of concurrent writers
   and flushers): if the Flush at the end of the history returns nil, then for every data id no
   point of it is buffered and its points in the chunks are exactly its accepted points.
   Checked on the real code under concurrency by the h-upstream kind flushers (4-8 goroutines each
   looping {Write own id; Flush; observe}); fl_ok is this conclusion projected on the caller's own
   data id, evaluated on the State() snapshot taken right after Flush returned and the broker's
   ledger; the linearisation is the harness's per-goroutine program order + the observed chunk
   order (sequence numbers). *)
Theorem c20_flush_barrier_per_id : forall pol rev0 ops id,
  let s := r_state (urun (uinit pol rev0) ops) in
  let r := urun (uinit pol rev0) (ops ++ [Flush]) in
  snd (ustep s Flush) = 0 ->
  buf_pts id (u_buf (r_state r)) = [] /\
  chunks_pts id (chunks_of (r_outs r)) = accepted_pts id (ops ++ [Flush]) (r_rets r).
Proof. exact flush_barrier_per_id. Qed.
Print Assumptions c20_flush_barrier_per_id.

(* none / interval policies: a write never causes a transmission *)
Theorem c20_none_policy : forall s k ps, (u_pol s = PNone \/ u_pol s = PInterval) ->
  snd (fst (ustep s (Write k ps))) = [].
Proof. exact none_policy_silent. Qed.
Print Assumptions c20_none_policy.

(* size policies (and every other): a write is cut exactly when the policy's predicate holds of
   the buffered payload including this write, and then the chunk contains everything buffered *)
Theorem c20_size_policy : forall s k ps, inv s -> u_closed s = false ->
  let r := ustep s (Write k ps) in
  let b1 := buf_add k ps (u_buf s) in
  let size1 := buf_size (u_buf s) + sum_len ps in
  (is_flush (u_pol s) size1 = false -> snd (fst r) = [] /\ u_buf (fst (fst r)) = b1) /\
  (is_flush (u_pol s) size1 = true ->
     flush_fails (mkU b1 size1 (u_count s + N.of_nat (length ps)) (u_seq s) (u_total s) (u_rev s) (u_pol s) false (u_failed s)) = false ->
     u_buf (fst (fst r)) = [] /\
     chunks_of (snd (fst r)) = [(u_seq s + 1, map (to_wgroup (u_rev s)) b1, unaliased_ids (u_rev s) b1)]).
Proof. exact write_cut. Qed.
Print Assumptions c20_size_policy.

(* immediate policy: every accepted write is cut on its own *)
Theorem c20_immediate : forall s k ps, inv s -> u_pol s = PImmediate -> u_closed s = false ->
  flush_fails (mkU (buf_add k ps (u_buf s)) (u_size s + sum_len ps) (u_count s + N.of_nat (length ps)) (u_seq s) (u_total s) (u_rev s) (u_pol s) false (u_failed s)) = false ->
  length (chunks_of (snd (fst (ustep s (Write k ps))))) = 1%nat /\ u_buf (fst (fst (ustep s (Write k ps)))) = [].
Proof. exact immediate_cuts. Qed.
Print Assumptions c20_immediate.

(* interval policies: a tick leaves nothing buffered, so no accepted point survives two ticks *)
Theorem c20_interval : forall s, u_closed s = false ->
  u_failed (fst (fst (ustep s Tick))) = false -> u_buf (fst (fst (ustep s Tick))) = [].
Proof. exact tick_empties. Qed.
Print Assumptions c20_interval.

(* the interval bound on the model clock (a tick is an event): after ANY history that ends with a
   tick and leaves the stream open and not failed, nothing is buffered and every point accepted
   before that tick - for every data id - is in a chunk; i.e. an accepted point is held for at
   most the time until the next tick.
   The model has no wall clock.  The same bound is checked on the REAL clock by the h-upstream
   cases of kind rt-interval (record rt_case, predicate rt_ok in Model/Upstream.v): they run the
   library's own time.Ticker and its own - possibly shared - policy objects (the package-level
   default object, IntervalOnly(d), IntervalOrBufferSize(d,n); one, two and three streams on one
   connection, with a neighbour that cuts by size faster than the interval, is closed, or resumes
   after a link cut) and require every small accepted write to reach the broker within
   interval + slack, where slack (150 ms quick) absorbs scheduling on a loaded machine. *)
Theorem c20_interval_hold : forall pol rev0 ops id,
  let r := urun (uinit pol rev0) (ops ++ [Tick]) in
  u_closed (r_state r) = false -> u_failed (r_state r) = false ->
  u_buf (r_state r) = [] /\
  chunks_pts id (chunks_of (r_outs r)) = accepted_pts id (ops ++ [Tick]) (r_rets r).
Proof. exact interval_hold. Qed.
Print Assumptions c20_interval_hold.

(* state snapshot: points reported sent + points reported buffered = points accepted *)
Theorem c20_state_conservation : forall pol rev0 ops,
  let r := urun (uinit pol rev0) ops in
  u_total (r_state r) + buf_count (u_buf (r_state r)) = accepted_count ops (r_rets r).
Proof.
  intros pol rev0 ops. pose proof (state_conservation ops (uinit pol rev0) (inv_init pol rev0)) as H.
  cbn zeta in H. exact H.
Qed.
Print Assumptions c20_state_conservation.

(* Sent-storage failures (urun_sf F: the Store of the cuts with sequence numbers in F returns an
   error; code as it is: counters advanced, sequence number used, buffer cleared and send hook
   queued BEFORE Store is called).  A failing Store changes no state and no State() snapshot ... *)
Theorem c20_store_failure_state : forall F ops s,
  r_state (urun_sf F s ops) = r_state (urun s ops) /\ r_snaps (urun_sf F s ops) = r_snaps (urun s ops).
Proof. intros F ops s. exact (urun_sf_state F ops s). Qed.
Print Assumptions c20_store_failure_state.

(* ... so a snapshot never invents or double-counts data whatever Store does: sent + buffered =
   accepted in every reachable state (the points of a chunk whose Store failed are reported as
   sent, never as sent AND buffered) ... *)
Theorem c20_state_conservation_store_failure : forall F pol rev0 ops,
  let r := urun_sf F (uinit pol rev0) ops in
  u_total (r_state r) + buf_count (u_buf (r_state r)) = accepted_count ops (r_rets r).
Proof. exact state_conservation_sf. Qed.
Print Assumptions c20_state_conservation_store_failure.

(* ... and the wire carries exactly the plain model's outputs minus the chunks whose Store failed *)
Theorem c20_store_failure_wire : forall F ops s, r_outs (urun_sf F s ops) = sf_outs F (r_outs (urun s ops)).
Proof. intros F ops s. exact (urun_sf_outs F ops s). Qed.
Print Assumptions c20_store_failure_wire.

(* FINDING (code as it is, reproduced on the real code by the h-upstream kind storefail): when the
   Store of a cut made by the flush loop (size trigger or tick) fails, the error is swallowed and
   the chunk is dropped: size policy 4, Store of cut 1 fails: both writes are accepted, the later
   Flush returns nil with an empty buffer, TotalDataPoints = 2 and two sequence numbers are used,
   but point 1 never reaches the wire.  (Not reachable with the built-in storages, whose Store
   never fails; the storage is not injectable through the public API.) *)
Theorem c20_store_failure_drops_chunk :
  let ops := [Write 1 [(1,1,5)]; Write 1 [(2,2,1)]; Flush] in
  let r := urun_sf [1] (uinit (PSize 4) []) ops in
  r_rets r = [0; 0; 0] /\ u_buf (r_state r) = [] /\ u_total (r_state r) = 2 /\ u_seq (r_state r) = 2 /\
  chunks_pts 1 (chunks_of (r_outs r)) = [(2,2,1)] /\
  accepted_pts 1 ops (r_rets r) = [(1,1,5); (2,2,1)].
Proof. exact store_failure_drops_chunk. Qed.
Print Assumptions c20_store_failure_drops_chunk.

(* no chunk is ever cut empty (no groups) *)
Theorem c20_no_empty_chunk : forall pol rev0 ops c,
  In c (chunks_of (r_outs (urun (uinit pol rev0) ops))) -> snd (fst c) <> [].
Proof. intros pol rev0 ops. apply no_empty_chunk. Qed.
Print Assumptions c20_no_empty_chunk.

(* non-vacuity: size policy with threshold 4: the third write crosses it *)
Example c20_example :
  let ops := [Write 1 [(1,1,2)]; Write 2 [(2,2,2)]; Write 1 [(3,3,1)]; Write 1 [(4,4,0)]; Flush] in
  let r := urun (uinit (PSize 4) []) ops in
  map (fun s => fst (fst s)) (r_snaps r) = [0; 0; 1; 1; 2] /\ r_rets r = [0; 0; 0; 0; 0].
Proof. vm_compute. split; reflexivity. Qed.

(* non-vacuity of c20_interval_hold: interval policy, two writes to two ids, then a tick: the stream
   is open and not failed, and the one chunk holds both points *)
Example c20_interval_example :
  let ops := [Write 1 [(1,1,2)]; Write 2 [(2,2,2)]] in
  let r := urun (uinit PInterval []) (ops ++ [Tick]) in
  u_closed (r_state r) = false /\ u_failed (r_state r) = false /\
  chunks_pts 2 (chunks_of (r_outs r)) = [(2,2,2)] /\ length (chunks_of (r_outs r)) = 1%nat.
Proof. vm_compute. repeat split. Qed.

(* the real-time predicate: a hold of 251 ms against interval 100 + slack 150 is refused, 250 passes *)
Example c20_rt_example :
  rt_ok (mkRtCase 100 150 [12; 250] true [2] [2] [2]) = true /\
  rt_ok (mkRtCase 100 150 [12; 251] true [2] [2] [2]) = false /\
  upx_judge (RT (mkRtCase 100 150 [12; 251] true [2] [2] [2])) = 4.
Proof. vm_compute. repeat split. Qed.

(* the compact point-list notation of the big-backlog cases *)
Example c20_prun_example : prun 7 3 9 1 = [(7,9,1); (8,9,1); (9,9,1)].
Proof. reflexivity. Qed.

(* the concurrent-flushers predicate: a point still buffered after its Flush returned nil is refused *)
Example c20_fl_example :
  fl_judge (mkFlCase PNone 6 300 3 [Write 3 [(7,1,1)]; Flush] [0; 0] [([], []); ([(7,1,1)], [])] true) = 0 /\
  fl_judge (mkFlCase PNone 6 300 3 [Write 3 [(7,1,1)]; Flush] [0; 0] [([], []); ([], [(7,1,1)])] true) = 5.
Proof. vm_compute. split; reflexivity. Qed.

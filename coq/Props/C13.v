(* C13 - transports keep message boundaries, bytes and order in every compression mode.
   Property theorems only; each is closed by [exact] of a lemma of Proofs/FramingProofs.v or
   Proofs/WindowProofs.v.  DEFLATE is not modelled: [deflate]/[inflate] are universally
   quantified functions and the round trip [inflate d (deflate l d m) = (m, true)] is an
   explicit premise (named inflate_deflate in DESIGN section 8).
   Messages are VALUES in the model: what Read returns and what Write was given share nothing with
   the dictionaries or with any later message (no aliasing of the caller's buffers).  For the Go
   code this is a separate obligation, tied by the harnesses' caller discipline: every buffer
   passed to Write is overwritten as soon as Write returns, and every message returned by Read is
   compared at once and then either overwritten over its whole capacity or retained and compared
   again at the end of the case (h-transport, h-quicfake). *)
From Coq Require Import List NArith Bool Arith.
From Iscp Require Import Lib.ListMap Lib.Bytes Model.Segment Model.Framing Model.Window
  Proofs.FramingProofs Proofs.WindowProofs.
Import ListNotations.
Open Scope N_scope.

(* ---------- QUIC / WebTransport stream framing (byte level) ---------- *)

(* For every list of messages shorter than 2^32 bytes (empty ones included), decoding the
   concatenation of their frames returns exactly the messages, in order, and stops on a frame
   boundary. *)
Theorem c13_frames_roundtrip : forall ms,
  Forall (fun m => Framing.lenN m < two32) ms ->
  parse_all (concat (map frame ms)) = (ms, true).
Proof. exact frames_roundtrip. Qed.
Print Assumptions c13_frames_roundtrip.

(* One message per decode step: whatever follows a frame on the stream, one decodeFrom returns
   that frame's message and leaves exactly the rest. *)
Theorem c13_frames_one_per_step : forall m rest,
  Framing.lenN m < two32 -> parse1 (frame m ++ rest) = Some (m, rest).
Proof. exact parse1_frame. Qed.
Print Assumptions c13_frames_one_per_step.

(* A stream that ends strictly inside a frame never yields a partial message. *)
Theorem c13_frames_no_partial : forall m k,
  Framing.lenN m < two32 -> (k < length (frame m))%nat -> parse1 (firstn k (frame m)) = None.
Proof. exact parse1_truncated. Qed.
Print Assumptions c13_frames_no_partial.

(* Counters: after any sequence of writes the stream is the concatenation of the frames and the
   tx counter equals the number of bytes put on the stream (uint64 arithmetic); the rx counter
   after decoding those frames equals the same number. *)
Theorem c13_counters_stream : forall ps,
  let s := q_write_all (mkQtx [] 0) ps in
  q_stream s = concat (map frame ps) /\
  q_tx s = Framing.lenN (q_stream s) mod Framing.two64 /\
  q_rx_count ps = Framing.lenN (q_stream s) mod Framing.two64.
Proof. exact counters_stream. Qed.
Print Assumptions c13_counters_stream.

(* ---------- WebSocket: mode selection ---------- *)

(* Compression is off exactly when no level, or level 0, was negotiated - whatever the local
   base configuration says. *)
Theorem c13_mode_off : forall p base,
  mode_of (compress_config p base) = MOff <-> (np_level p = None \/ np_level p = Some 0).
Proof. exact mode_off_iff. Qed.
Print Assumptions c13_mode_off.

(* With a non-zero negotiated level both peers derive mode, level and window from the
   negotiated parameters (the base configuration only fills in what was not negotiated). *)
Theorem c13_mode_negotiated : forall p base l, np_level p = Some l -> l <> 0 ->
  mode_of (compress_config p base) =
    match np_comp p with
    | CPerMessage => MPerMsg
    | CTakeover => MTakeover
    | CNone => if cc_disable_ct base then MPerMsg else MTakeover
    end
  /\ cc_level (compress_config p base) = l
  /\ window_size (compress_config p base) = 2 ^ (match np_bits p with Some b => b | None => cc_bits base end).
Proof. exact mode_negotiated. Qed.
Print Assumptions c13_mode_negotiated.

(* ---------- WebSocket: dictionaries and delivery ---------- *)

(* For every configuration (mode, level, window size), every message sequence and every pair of
   writer/reader states that hold equal dictionaries (in particular the initial states): the
   reader's dictionary before each message equals the writer's dictionary before that message. *)
Theorem c13_windows_equal : forall deflate inflate,
  (forall l d m, inflate d (deflate l d m) = (m, true)) ->
  forall c ms tx rx, tx_win tx = rx_win rx ->
  rx_wins inflate c rx (snd (tx_run deflate c tx ms)) = tx_wins deflate c tx ms.
Proof. exact windows_equal. Qed.
Print Assumptions c13_windows_equal.

(* Hence the reads return the written messages, byte for byte, in order, one per call. *)
Theorem c13_ws_delivery : forall deflate inflate,
  (forall l d m, inflate d (deflate l d m) = (m, true)) ->
  forall c ms tx rx, tx_win tx = rx_win rx ->
  snd (rx_run inflate c rx (snd (tx_run deflate c tx ms))) = map Some ms.
Proof. exact delivery. Qed.
Print Assumptions c13_ws_delivery.

(* In takeover mode the writer's dictionary is exactly the last 2^bits bytes of everything
   written so far (the documented dictionary, which an independent decoder can maintain). *)
Theorem c13_window_is_suffix : forall deflate c ms, mode_of c = MTakeover ->
  tx_win (fst (tx_run deflate c tx0 ms)) = trim (window_size c) (concat ms).
Proof. exact tx_window_is_suffix0. Qed.
Print Assumptions c13_window_is_suffix.

(* Counters: writer's tx and reader's rx both equal the sum of the wire lengths (uint64). *)
Theorem c13_counters_ws : forall deflate inflate,
  (forall l d m, inflate d (deflate l d m) = (m, true)) ->
  forall c ms,
  let wires := snd (tx_run deflate c tx0 ms) in
  tx_cnt (fst (tx_run deflate c tx0 ms)) = fold_left (fun a w => Window.add64 a (Window.lenN w)) wires 0 /\
  rx_cnt (fst (rx_run inflate c rx0 wires)) = fold_left (fun a w => Window.add64 a (Window.lenN w)) wires 0.
Proof. exact counters0. Qed.
Print Assumptions c13_counters_ws.

(* Compression off: the bytes of each WebSocket message are the message. *)
Theorem c13_off_wire : forall deflate c ms, mode_of c = MOff -> snd (tx_run deflate c tx0 ms) = ms.
Proof. exact off_wire0. Qed.
Print Assumptions c13_off_wire.

(* F28 (found by h-transport on the real code): Go's flate.NewWriterDict violates the round
   trip premise - for an incompressible message it can emit a stored block that contains the
   dictionary.  Whenever that happens the reader hands up dictionary ++ message, which is not
   the message. *)
Theorem c13_ws_delivery_refuted_when_dictionary_leaks : forall deflate inflate c tx rx m,
  mode_of c = MTakeover -> tx_win tx = rx_win rx -> tx_win tx <> [] ->
  inflate (tx_win tx) (deflate (cc_level c) (tx_win tx) m) = (tx_win tx ++ m, true) ->
  snd (ws_read inflate c rx (snd (ws_write deflate c tx m))) = Some (tx_win tx ++ m) /\
  tx_win tx ++ m <> m.
Proof. exact dict_leak_breaks_delivery. Qed.
Print Assumptions c13_ws_delivery_refuted_when_dictionary_leaks.

(* The reader the judge runs on the implementation's wire log ([rd_follow], DEFLATE-free, told by
   the harness' independent inflater where a dictionary leak was observed): without leaks its
   outputs are the written messages and its dictionaries are the writer's ([wins_after]); a leak
   on a non-empty dictionary always shows as a wrong message. *)
Theorem c13_judge_reader_without_leak : forall c ms w,
  map fst (rd_follow c w (map (fun m => (m, false)) ms)) = ms /\
  map snd (rd_follow c w (map (fun m => (m, false)) ms)) = wins_after c w ms.
Proof. exact rd_follow_no_leak. Qed.
Print Assumptions c13_judge_reader_without_leak.
Theorem c13_judge_reader_leak_shows : forall c w m ms, w <> [] ->
  exists w', rd_follow c w ((m, true) :: ms) = (w ++ m, w') :: rd_follow c w' ms /\ w ++ m <> m.
Proof. exact rd_follow_leak_shows. Qed.
Print Assumptions c13_judge_reader_leak_shows.

(* Read AS IT IS NOW drains the message reader to io.EOF after decoding (fix 1ebe65c of F29), so
   the rule of coder/nhooyr - Reader() refused while the previous message was not read to io.EOF -
   has no effect: on a strict Conn as on a lenient one, for every configuration and message
   sequence, the peer's reads are the written messages, in order, one per call. *)
Theorem c13_strict_conn_delivery : forall deflate inflate,
  (forall l d m, inflate d (deflate l d m) = (m, true)) ->
  forall strict c ms tx rx, tx_win tx = rx_win rx ->
  conn_rule strict (mode_of c) (snd (rx_run inflate c rx (snd (tx_run deflate c tx ms)))) = map Some ms.
Proof. exact delivery_on_any_conn. Qed.
Print Assumptions c13_strict_conn_delivery.

(* F29 - FIXED in /repo; a statement about the FORMER Read ([conn_rule_gen false]: found by
   h-transport with a strict in-memory Conn, reproduced over loopback with the real coder
   backend): with compression on it stopped at the end of the DEFLATE stream, and on a strict
   Conn every read after the first failed. *)
Theorem c13_former_read_strict_conn_refuted : forall m r rest, m <> MOff ->
  conn_rule_gen false true m (r :: rest) = r :: map (fun _ => None) rest.
Proof. exact former_read_strict_conn_loses_messages. Qed.
Print Assumptions c13_former_read_strict_conn_refuted.

(* ---------- datagram sequence numbers (shared by WriteUnreliable and all AsUnreliable handles) ---------- *)

(* The k-th unreliable write on a transport uses sequence number nth_seq k whichever handle
   issued it and whatever was written before; the first is 0; any two writes less than 2^32
   apart use different numbers. *)
Theorem c13_dgram_seq_shared : forall P ps p,
  d_seqctr (d_write P (d_write_all P d_init ps) p) = nth_seq (length ps).
Proof. exact nth_seq_used. Qed.
Theorem c13_dgram_seq_first : nth_seq 0 = 0.
Proof. exact nth_seq_first. Qed.
Theorem c13_dgram_seq_distinct : forall i j, (i < j)%nat -> N.of_nat j - N.of_nat i < 4294967296 ->
  nth_seq i <> nth_seq j.
Proof. exact nth_seq_distinct. Qed.
Print Assumptions c13_dgram_seq_distinct.

(* ---------- non-vacuity ---------- *)

(* framing: three messages, one empty *)
Example c13_example_frames :
  let ms := [[1;2;3]; []; [255]] in
  concat (map frame ms) = [0;0;0;3;1;2;3; 0;0;0;0; 0;0;0;1;255] /\
  parse_all (concat (map frame ms)) = (ms, true).
Proof. vm_compute. split; reflexivity. Qed.

(* the round-trip premise is satisfiable (identity codec), and with it a takeover run with a
   4-byte window trims the dictionary as stated *)
Example c13_example_window :
  let deflate := fun (_ : N) (_ m : list N) => m in
  let inflate := fun (_ w : list N) => (w, true) in
  let c := compress_config (mkNP CTakeover (Some 6) (Some 2)) (mkCC false 0 true 0) in
  (forall l d m, inflate d (deflate l d m) = (m, true)) /\
  mode_of c = MTakeover /\ window_size c = 4 /\
  tx_wins deflate c tx0 [[1;2;3]; [4;5]; []; [6;7;8;9;10]; [11]] = [[]; [1;2;3]; [2;3;4;5]; [2;3;4;5]; [7;8;9;10]].
Proof. vm_compute. repeat split; reflexivity. Qed.

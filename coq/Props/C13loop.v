(* C13 / C14 over real sockets - the judge of h-loopback (Model/Loopback.v).
   Property theorems only; each is closed by [exact] of a lemma of Proofs/LoopbackProofs.v.
   On a real socket the wire cannot be observed; a case holds lengths, digests, the harness'
   byte-for-byte attribution of every read to a written message, and the counters.  The theorems
   say (1) that the trace Model/Framing.v predicts (frame the messages, parse the stream, count)
   satisfies the predicate and the correspondence check - the harness asks for exactly what
   c13_frames_roundtrip / c13_counters_stream deliver, and (2) what an accepted case means. *)
From Coq Require Import List NArith Bool.
From Iscp Require Import Lib.ListMap Lib.Bytes Model.Segment Model.Framing Model.Loopback
  Proofs.LoopbackProofs.
Import ListNotations.
Open Scope N_scope.

(* For every list of messages shorter than 2^32 bytes (empty ones included): the case built from
   Framing's writer (q_write_all, compression off), Framing's parser (parse_all) on the resulting
   stream, in-order attribution of the decoded frames and Framing's counters is accepted by the
   property predicate lb_ok and by the correspondence predicate lb_corr. *)
Theorem c13loop_model_trace_ok : forall ms,
  Forall (fun m => Framing.lenN m < two32) ms ->
  lb_ok (lb_of_model ms) = true /\ lb_corr (lb_of_model ms) = true.
Proof. exact model_trace_ok. Qed.
Print Assumptions c13loop_model_trace_ok.

(* A stream case (webtransport / quic stream, websocket) accepted by lb_ok: no Write and no Read
   failed, writer's tx counter = reader's rx counter, and for EVERY writer w the reads attributed
   to w are exactly its messages 0, 1, ..., n_w - 1 in this order - the read sequence is an
   interleaving of the writers' sequences, every message exactly once, nothing else. *)
Theorem c13loop_stream_accepted_means : forall c, (forall P, lb_k c <> LbDgram P) -> lb_ok c = true ->
  lb_werrs c = 0 /\ lb_rerr c = false /\ lb_tx c = lb_rx c /\
  (forall w ms, nth_error (lb_writers c) w = Some ms ->
     reads_of (N.of_nat w) (lb_reads c) = countup 0 (length ms)).
Proof. exact lb_ok_stream_sound. Qed.
Print Assumptions c13loop_stream_accepted_means.

(* In an accepted stream case every read is attributed, to the next unread message of its writer,
   and has that message's length and digest (in_order is the check lb_ok runs). *)
Theorem c13loop_stream_reads_in_order : forall writers reads next fin,
  in_order writers next reads = Some fin ->
  length fin = length next /\
  forall w n, nth_error next w = Some n ->
    exists k, nth_error fin w = Some (n + N.of_nat k) /\ reads_of (N.of_nat w) reads = countup n k.
Proof. exact in_order_spec. Qed.
Print Assumptions c13loop_stream_reads_in_order.

(* A datagram case accepted by lb_ok (C14 on the real QUIC / WebTransport datagram path): every
   message handed up is a written message (same length and digest as the message the harness
   matched byte for byte) - never a partial or mixed reassembly -, no written message is handed up
   twice (the reads are a sub-multiset of the writes; loss is allowed; in particular none of the
   lb_inj malformed datagrams injected on the raw session was handed up), and the reader counted no
   more datagram bytes than the writer sent plus the injected ones. *)
Theorem c13loop_dgram_accepted_means : forall c P, lb_k c = LbDgram P -> lb_ok c = true ->
  (forall r, In r (lb_reads c) ->
     exists w i, rd_att r = Some (w, i) /\ desc_at (lb_writers c) w i = Some (rd_len r, rd_dig r))
  /\ NoDup (read_atts (lb_reads c))
  /\ lb_rx c <= lb_tx c + lb_injb c.
Proof. exact lb_ok_dgram_sound. Qed.
Print Assumptions c13loop_dgram_accepted_means.

(* ---------- non-vacuity ---------- *)

(* the model trace of three messages, one empty: three reads attributed in order, counters 16 *)
Example c13loop_example_model :
  let c := lb_of_model [[1;2;3]; []; [255]] in
  lb_reads c = [mkRd (Some (0, 0)) 3 (lb_digest [1;2;3]); mkRd (Some (0, 1)) 0 0; mkRd (Some (0, 2)) 1 256]
  /\ lb_tx c = 16 /\ lb_rx c = 16 /\ lb_judge c = 0.
Proof. vm_compute. repeat split; reflexivity. Qed.

(* the predicate rejects: a message read twice, a writer's order broken, a read that is no written
   message, a counter mismatch; for datagrams a mixed reassembly and a duplicate, but not loss *)
Example c13loop_example_rejects :
  let ws := [[(3, 7); (1, 8)]; [(2, 9)]] in
  let r w i l d := mkRd (Some (w, i)) l d in
  lb_ok (mkLb LbFramed false true ws 0 [r 1 0 2 9; r 0 0 3 7; r 0 1 1 8] false 18 18 [] 0 0) = true
  /\ lb_ok (mkLb LbFramed false true ws 0 [r 0 1 1 8; r 1 0 2 9; r 0 0 3 7] false 18 18 [] 0 0) = false
  /\ lb_ok (mkLb LbFramed false true ws 0 [r 0 0 3 7; r 0 0 3 7; r 1 0 2 9] false 18 18 [] 0 0) = false
  /\ lb_ok (mkLb LbFramed false true ws 0 [r 0 0 3 7; mkRd None 3 5; r 1 0 2 9] false 18 18 [] 0 0) = false
  /\ lb_ok (mkLb LbFramed false true ws 0 [r 1 0 2 9; r 0 0 3 7; r 0 1 1 8] false 18 17 [] 0 0) = false
  /\ lb_ok (mkLb LbFramed false true ws 0 [r 1 0 2 9; r 0 0 3 7] false 13 13 [] 0 0) = false
  /\ lb_ok (mkLb (LbDgram 2) false true ws 0 [r 1 0 2 9] false 38 10 [2] 0 0) = true
  /\ lb_ok (mkLb (LbDgram 2) false true ws 0 [r 1 0 2 9; mkRd None 3 5] false 38 38 [2] 0 0) = false
  /\ lb_ok (mkLb (LbDgram 2) false true ws 0 [r 1 0 2 9; r 1 0 2 9] false 38 38 [2] 0 0) = false
  /\ lb_ok (mkLb (LbDgram 2) false false ws 0 [r 1 0 2 9; r 0 0 3 7] false 38 50 [2] 3 12) = true
  /\ lb_ok (mkLb (LbDgram 2) false false ws 0 [r 1 0 2 9; mkRd None 5 77; r 0 0 3 7] false 38 50 [2] 3 12) = false.
Proof. vm_compute. repeat split; reflexivity. Qed.

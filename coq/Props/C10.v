(* C10 - Close is final: documented errors, silence on the wire, no reconnect, notifications at
   most once.  Property theorems only, over Model/Conn.v; histories are arbitrary event lists (see
   Props/C05.v).  [faithful] is the code AS IT IS NOW (after the fix commits 9b8bda8 F5, b47e52f F10,
   eca7266 F19, 0d5b8e3 supervisor leak, 741ede2 F9); [former] is the code before them.  Main theorems
   are about [faithful] or about every state; theorems named ..._former_... record what the repairs
   changed.  One finding is NOT repaired and stays refuted for the code as it is: F11
   (c10_silence_refuted).  The goroutine census is a runtime fact sampled by h-close; the model
   carries the stream supervisor that the census used to find leaked. *)
From Coq Require Import List NArith Bool.
From Iscp Require Import Model.Conn Proofs.ConnProofs.
Import ListNotations.
Open Scope N_scope.

(* Closed is absorbing: once the status is Closed no event - dial result, failing request, wake-up,
   second Close - ever changes it; in particular every history that contains a Close call ends
   Closed. *)
Theorem c10_closed_absorbing : forall evs c, c_status c = Closed -> c_status (fst (run c evs)) = Closed.
Proof. exact closed_run. Qed.
Print Assumptions c10_closed_absorbing.

Theorem c10_closed_after_close : forall f pre post,
  c_status (fst (run (init f) (pre ++ ECloseCall :: post))) = Closed.
Proof. intros. apply closed_after_close_call. Qed.
Print Assumptions c10_closed_after_close.

(* never Connected again: no Reconnected event after Closed, whatever the run loop was doing *)
Theorem c10_never_reconnected : forall evs c, c_status c = Closed -> nreconn (snd (run c evs)) = 0%nat.
Proof. exact closed_run_noreconn. Qed.
Print Assumptions c10_never_reconnected.

(* reconnect refuses: Closed and the loop not inside reconnect() => no token is fetched, no dial is
   attempted, nothing panics - for ever *)
Theorem c10_no_dial_after_close : forall evs c, c_status c = Closed -> c_loop c <> LDial ->
  connects_of (snd (run c evs)) = [] /\ tokens_of (snd (run c evs)) = [] /\ has_panic (snd (run c evs)) = false.
Proof. intros evs c H L. destruct (quiet_run evs c (conj H L)) as (_ & A & B & C). auto. Qed.
Print Assumptions c10_no_dial_after_close.

(* a Close that arrives while reconnect() is dialling: at most ONE more attempt (the one retry.Do
   had not yet checked) ... *)
Theorem c10_close_while_dialling_one_attempt : forall evs c, c_status c = Closed ->
  (length (connects_of (snd (run c evs))) <= 1)%nat.
Proof. exact closed_dial_budget. Qed.
Print Assumptions c10_close_while_dialling_one_attempt.

(* MAIN: no history of the code as it is panics (a Close that arrives while reconnect() is dialling
   makes reconnect discard the new connection and return ErrConnectionClosed) ... *)
Theorem c10_no_panic : forall evs, has_panic (snd (run (init faithful) evs)) = false.
Proof. exact no_panic_now. Qed.
Print Assumptions c10_no_panic.

(* ... in every state of every configuration with that repair *)
Theorem c10_no_panic_any_state : forall evs c, fix_f10 (c_cfg c) = true -> has_panic (snd (run c evs)) = false.
Proof. exact no_panic_run. Qed.
Print Assumptions c10_no_panic_any_state.

(* FORMER code (before b47e52f, finding F10 - fixed): that attempt, when it succeeded, panicked on
   the failed CompareAndSwap *)
Theorem c10_close_while_dialling_former_refuted :
  has_panic (snd (run (init former) [ELinkDown; EDetect; ELoop; ECloseCall; EDial true])) = true.
Proof. exact close_while_dialling_panics. Qed.
Print Assumptions c10_close_while_dialling_former_refuted.

(* MAIN: after-close API matrix.  After ANY history of the code as it is that contains a Close call,
   every connection-level entry - OpenUpstream, OpenDownstream, SendMetadata, SendCall, SendReplyCall,
   SendCallAndWaitReplayCall, ReceiveCall, ReceiveReplyCall - returns the connection-closed sentinel
   at once (no wait, no context error). *)
Theorem c10_after_close_errors : forall pre post a, conn_level a = true ->
  conn_api (fst (run (init faithful) (pre ++ ECloseCall :: post))) a = RConnClosed.
Proof. exact after_close_now. Qed.
Print Assumptions c10_after_close_errors.

Theorem c10_after_close_errors_any_state : forall c a, c_status c = Closed -> fix_f5 (c_cfg c) = true -> ctx_first (c_cfg c) = false ->
  conn_level a = true -> conn_api c a = RConnClosed.
Proof. exact matrix_repaired. Qed.
Print Assumptions c10_after_close_errors_any_state.

(* the theorem depends on waitUntil consulting the closed-status hook BEFORE the context: the e2e senders
   wait on a context that a watcher cancels as soon as the status is Closed; in the model that context
   counts as already done (worst case).  With the two looked at in the other order the same entry
   returns context.Canceled *)
Theorem c10_hook_before_context_matters : forall c, c_status c = Closed -> ctx_first (c_cfg c) = true ->
  conn_api c ACallWait = RCanceled.
Proof. exact ctx_first_misclassifies. Qed.
Print Assumptions c10_hook_before_context_matters.

(* FORMER code (before 9b8bda8, finding F5 - fixed): SendMetadata waited for its context and
   SendCallAndWaitReplayCall returned context.Canceled *)
Theorem c10_after_close_errors_former : forall c a, c_status c = Closed -> fix_f5 (c_cfg c) = false -> conn_level a = true ->
  conn_api c a = match a with AMeta => RDeadline | ACallWait => RCanceled | _ => RConnClosed end.
Proof. exact matrix_faithful. Qed.
Print Assumptions c10_after_close_errors_former.

(* the close watcher cancels an open stream (after which its data-path entries return StreamClosed
   by stream_api_closed) *)
Theorem c10_stream_cancelled_by_close : forall c i s, c_status c = Closed -> find_s i (c_streams c) = Some s -> s_phase s = SWatch ->
  exists s', find_s i (c_streams (fst (step c (EWatch i)))) = Some s' /\ s_phase s' = SClosed false false.
Proof. exact stream_cancelled_by_close. Qed.
Print Assumptions c10_stream_cancelled_by_close.

(* MAIN (pending callers): stream calls that are PENDING when Close is called - writers blocked in
   WriteDataPoints because no flush loop exists during an outage, Flush callers, consumers blocked in
   ReadDataPoints / ReadMetadata - return the stream-closed sentinel: after ANY history of the code as it
   is that contains a Close call, for a stream that is open or waiting for the reconnect, one wake-up of
   its watcher and of its supervisor ends every such wait with StreamClosed; until the stream context is
   cancelled nothing else ends it. *)
Theorem c10_pending_stream_calls_return : forall pre post i s a,
  let c := fst (run (init faithful) (pre ++ ECloseCall :: post)) in
  find_s i (c_streams c) = Some s -> (s_phase s = SWatch \/ s_phase s = SWaitConn) -> data_path a = true ->
  pending_stream_call (fst (run c [EWatch i; ESup i])) i a = RStreamClosed.
Proof. exact pending_stream_calls_return_now. Qed.
Print Assumptions c10_pending_stream_calls_return.

Theorem c10_pending_stream_call_blocked_until_cancel : forall c i s a, find_s i (c_streams c) = Some s ->
  (forall e b, s_phase s <> SClosed e b) -> pending_stream_call c i a = RBlocked.
Proof. exact pending_stream_call_blocked_until_cancel. Qed.
Print Assumptions c10_pending_stream_call_blocked_until_cancel.

(* Silence: once Closed, the wire connection closed and the loop outside reconnect(), NOTHING is
   written any more - no request, resume, close request, call, chunk, ack, handshake, Disconnect *)
Theorem c10_silence : forall evs c, c_status c = Closed -> c_wclosed c = true -> c_loop c <> LDial ->
  filter is_wire (snd (run c evs)) = [] /\ filter is_disconnect (snd (run c evs)) = [].
Proof. intros evs c H W L. destruct (silent_run evs c (conj H (conj W L))) as (_ & A & B). auto. Qed.
Print Assumptions c10_silence.

(* PARTIAL: nothing follows the Disconnect provided no other goroutine runs between the moment
   SendDisconnect hands the message to the transport and wireConn.Close() (premise: the two events
   are adjacent).  Without the premise the statement is false of the code AS IT IS (finding F11, not
   repaired, known; next theorem). *)
Theorem c10_silence_partial : forall c post, c_status c = Closed -> c_close c = CSwapped -> c_loop c <> LDial ->
  wire_after_disconnect (snd (run c (ECloseDisc :: ECloseWire :: post))) = [].
Proof. exact silence_atomic. Qed.
Print Assumptions c10_silence_partial.

Theorem c10_silence_refuted :
  wire_after_disconnect (snd (run (init faithful)
    [EStart 0 KOpenUp; EWake 0; EResp 0; EWrite 0; ECloseCall; ECloseDisc; EWatch 0; ECloseWire])) = [OChunk 0 0].
Proof. exact silence_refuted. Qed.
Print Assumptions c10_silence_refuted.

(* Notifications at most once: after Closed at most one more Disconnected (the run loop leaving
   run()) and no Reconnected; a stream's closed event at most once over any whole history. *)
Theorem c10_events_at_most_once : forall evs c, c_status c = Closed ->
  (ndisc (snd (run c evs)) <= 1)%nat /\ nreconn (snd (run c evs)) = 0%nat.
Proof. exact closed_events_once. Qed.
Print Assumptions c10_events_at_most_once.

Theorem c10_stream_closed_event_once : forall f evs i, (nsclosed i (snd (run (init f) evs)) <= 1)%nat.
Proof. intros f evs i. exact (sclosed_run evs (init f) i). Qed.
Print Assumptions c10_stream_closed_event_once.

(* The user's stream Close is two events - the call (status swapped to Draining, close request written)
   and the end of its exchange - so ANY number of sequential or overlapping Close calls of one stream is
   an event list: the theorem above covers the overlap, and over any history at most one close request
   per stream is ever written (an overlapping Close returns "already draining" without touching the wire). *)
Theorem c10_stream_close_request_once : forall f evs i, (ncloseReq i (snd (run (init f) evs)) <= 1)%nat.
Proof. intros f evs i. exact (closereq_run evs (init f) i). Qed.
Print Assumptions c10_stream_close_request_once.

(* A stream Close is final WHATEVER the broker answers to the close request: success or a failure
   result code (Close then returns the FailedMessageError) - either way the stream context is cancelled,
   exactly one closed event is registered, and a later Close of the same stream writes nothing
   (c10_stream_close_request_once and c10_stream_closed_event_once cover the refused answer too: it is one
   more event of the history). *)
Theorem c10_stream_close_final_whatever_the_answer : forall c i s, find_s i (c_streams c) = Some s ->
  s_phase s = SDraining -> s_held s = c_gen c -> writable c = true ->
  forall e, e = EStreamCloseResp i \/ e = EStreamCloseRefused i ->
  snd (step c e) = [OStreamClosed i false] /\
  (exists s', find_s i (c_streams (fst (step c e))) = Some s' /\ s_phase s' = SClosed true true) /\
  snd (step (fst (step c e)) (EStreamClose i)) = [].
Proof. exact stream_close_final_whatever_the_answer. Qed.
Print Assumptions c10_stream_close_final_whatever_the_answer.

Theorem c10_overlapping_close_once :
  let r := run (init faithful) [EStart 0 KOpenUp; EWake 0; EResp 0; EWrite 0;
                                EStreamClose 0; EStreamClose 0; EStreamClose 0; EStreamCloseResp 0; EStreamCloseResp 0;
                                EStreamClose 0] in
  closereqs_of (snd r) = [0] /\ sclosed_of (snd r) = [(0, false)] /\ finals_of (fst r) = [(0, 2)].
Proof. exact overlapping_close_once. Qed.
Print Assumptions c10_overlapping_close_once.

(* MAIN: a stream supervisor that is waiting for the connection returns once the connection is closed
   (WaitUntilOrClosed): nothing of the modelled supervisors survives a Close during an outage *)
Theorem c10_supervisor_returns_on_close : forall c i s, fix_leak (c_cfg c) = true -> c_status c = Closed ->
  find_s i (c_streams c) = Some s -> s_phase s = SWaitConn ->
  exists s', find_s i (c_streams (fst (step c (ESup i)))) = Some s' /\ s_phase s' = SClosed false false.
Proof. exact supervisor_returns_on_close. Qed.
Print Assumptions c10_supervisor_returns_on_close.

Theorem c10_supervisor_no_leak :
  let r := run (init faithful) [EStart 0 KOpenUp; EWake 0; EResp 0; ELinkDown; EDetect; ELoop; EWatch 0;
                                ECloseCall; EDial false; ECloseDisc; ECloseWire; EWatch 0; ESup 0; ESup 0] in
  leaked_sups (fst r) = 0 /\ c_status (fst r) = Closed /\ c_loop (fst r) = LExit.
Proof. exact supervisor_no_leak_now. Qed.
Print Assumptions c10_supervisor_no_leak.

(* FORMER code (before 0d5b8e3, fixed): the supervisor waited in WaitUntil(ctx, Connected) with a
   background context and the same history left it waiting for ever (goroutine leak) *)
Theorem c10_supervisor_leak_former_refuted :
  let r := run (init former) [EStart 0 KOpenUp; EWake 0; EResp 0; ELinkDown; EDetect; ELoop; EWatch 0;
                              ECloseCall; EDial false; ECloseDisc; ECloseWire; EWatch 0; ESup 0; ESup 0] in
  leaked_sups (fst r) = 1 /\ c_status (fst r) = Closed /\ c_loop (fst r) = LExit.
Proof. exact supervisor_leak_former. Qed.
Print Assumptions c10_supervisor_leak_former_refuted.

(* non-vacuity: two streams, one closed by the user first, buffered data, a pending call, double Close *)
Example c10_example :
  let evs := [EStart 0 KOpenUp; EWake 0; EResp 0; EStart 1 KOpenDown; EWake 1; EResp 1; EWrite 0;
              EStreamClose 1; EStreamCloseResp 1; EStart 2 KCall; EWake 2; ECloseCall; EWatch 0; ECloseDisc; ECloseWire; ECloseCall;
              EFail 2; EStart 3 KOpenUp; EStart 4 KMeta; EWake 4; ELoop; EDial true] in
  let r := run (init faithful) evs in
  c_status (fst r) = Closed /\
  sclosed_of (snd r) = [(1, false)] /\
  rets_of (snd r) = [(0, 0); (1, 0); (2, 2); (3, 2); (4, 2)] /\
  wire_after_disconnect (snd r) = [] /\
  ndisc (snd r) = 1%nat /\ connects_of (snd r) = [] /\
  finals_of (fst r) = [(0, 3); (1, 2)].
Proof. vm_compute. repeat split. Qed.

(* C08 (static part) - "No input sequence leaves the client holding a lock it never releases":
   for every control-flow path of every function of the library that acquires a mutex.
   Property theorems only; lemmas are in Proofs/LockCfgProofs.v; the CFGs are regenerated from
   the source tree on every run (Gen/LockCfg.v, Gen/Waits.v). *)
From Coq Require Import List String NArith Bool Arith.
From Iscp Require Import Model.LockCfg Proofs.LockCfgProofs Gen.LockCfg Gen.Waits.
Import ListNotations.
Open Scope list_scope.

(* Soundness of the checker, for every CFG (not only the generated ones): if [balanced g] then on
   EVERY finite path of g from the entry to a node without successors (return, panic, end of
   body) - feasible or not - no lock operation faults (no unlock of a mutex that is not held, no
   cond.Wait without its mutex) and the vector of held locks equals the vector of deferred
   releases: once the deferred calls have run, nothing is held. *)
Theorem c08_balanced_sound : forall g, balanced g = true ->
  exists s0, init_state (locks_of g) g = Some s0 /\
  forall p b nd, path (nodes g) 0 p b -> nth_error (nodes g) b = Some nd -> succs nd = [] ->
    exists s, run_path (locks_of g) (nodes g) 0 p s0 = Some s /\ fst s = snd s.
Proof. exact balanced_sound. Qed.
Print Assumptions c08_balanced_sound.

(* the same as multisets: every (mutex, mode) is held exactly as often as its release is deferred *)
Theorem c08_balanced_sound_counts : forall g, balanced g = true ->
  exists s0, init_state (locks_of g) g = Some s0 /\
  forall p b nd, path (nodes g) 0 p b -> nth_error (nodes g) b = Some nd -> succs nd = [] ->
    exists s, run_path (locks_of g) (nodes g) 0 p s0 = Some s /\
              forall k, count_of (locks_of g) (fst s) k = count_of (locks_of g) (snd s) k.
Proof. exact balanced_sound_counts. Qed.
Print Assumptions c08_balanced_sound_counts.

(* no lock operation faults on any path from the entry to any node *)
Theorem c08_no_lock_fault : forall g, balanced g = true ->
  exists s0, init_state (locks_of g) g = Some s0 /\
  forall p b nd, path (nodes g) 0 p b -> nth_error (nodes g) b = Some nd ->
    exists s, run_path (locks_of g) (nodes g) 0 p s0 = Some s.
Proof. exact balanced_no_fault. Qed.
Print Assumptions c08_no_lock_fault.

(* THE OBLIGATION over the generated list: EVERY function / function literal of
   iscp, wire, transport, encoding, internal that locks is balanced - no exclusion (F6 is repaired). *)
Theorem c08_lock_release : forallb balanced all_cfgs = true.
Proof. vm_compute. reflexivity. Qed.
Print Assumptions c08_lock_release.

(* ... hence the path property for each of them *)
Theorem c08_lock_release_paths : forall g, In g all_cfgs ->
  exists s0, init_state (locks_of g) g = Some s0 /\
  forall p b nd, path (nodes g) 0 p b -> nth_error (nodes g) b = Some nd -> succs nd = [] ->
    exists s, run_path (locks_of g) (nodes g) 0 p s0 = Some s /\ fst s = snd s.
Proof.
  intros g Hin. apply balanced_sound. apply (forallb_balanced _ c08_lock_release). exact Hin.
Qed.
Print Assumptions c08_lock_release_paths.

(* no self-deadlock: no function acquires a mutex (Lock or RLock) while it already holds it in
   any mode - in particular no recursive RLock, which deadlocks as soon as a writer arrives between
   the two acquisitions.  Soundness for every CFG: on EVERY path from the entry ... *)
Theorem c08_no_reacq_sound : forall g, balanced g = true -> no_reacq g = true ->
  exists s0, init_state (locks_of g) g = Some s0 /\
  forall p b, path (nodes g) 0 p b -> run_path_nr (locks_of g) (nodes g) 0 p s0 = true.
Proof. exact no_reacq_sound. Qed.
Print Assumptions c08_no_reacq_sound.

(* ... THE OBLIGATION over the generated list ... *)
Theorem c08_no_reacquire : forallb no_reacq all_cfgs = true.
Proof. vm_compute. reflexivity. Qed.
Print Assumptions c08_no_reacquire.

(* ... hence for every lock-taking function of the library and every path *)
Theorem c08_no_reacquire_paths : forall g, In g all_cfgs ->
  exists s0, init_state (locks_of g) g = Some s0 /\
  forall p b, path (nodes g) 0 p b -> run_path_nr (locks_of g) (nodes g) 0 p s0 = true.
Proof.
  intros g Hin. apply no_reacq_sound.
  - apply (forallb_balanced _ c08_lock_release). exact Hin.
  - pose proof c08_no_reacquire as H. rewrite forallb_forall in H. apply H. exact Hin.
Qed.
Print Assumptions c08_no_reacquire_paths.

(* the check separates a recursive RLock (outer deferred, inner explicit: the shape of a read lock
   widened over a loop that still locks per element) from the two correct forms *)
Example c08_example_reacq :
  let recursive := mkCfg "f" "x.go" 1%N []
        [mkNode [Acq "mu" R; DeferRel "mu" R] [1] false; mkNode [Acq "mu" R; Rel "mu" R] [1; 2] false; mkNode [] [] true] in
  let per_element := mkCfg "f" "x.go" 1%N []
        [mkNode [] [1] false; mkNode [Acq "mu" R; Rel "mu" R] [1; 2] false; mkNode [] [] true] in
  let outer_only := mkCfg "f" "x.go" 1%N []
        [mkNode [Acq "mu" R; DeferRel "mu" R] [1] false; mkNode [] [1; 2] false; mkNode [] [] true] in
  let upgrade := mkCfg "f" "x.go" 1%N []
        [mkNode [Acq "mu" R; Acq "mu" W; Rel "mu" W; Rel "mu" R] [] true] in
  (balanced recursive = true /\ no_reacq recursive = false) /\
  (balanced per_element = true /\ no_reacq per_element = true) /\
  (balanced outer_only = true /\ no_reacq outer_only = true) /\
  no_reacq upgrade = false.
Proof. vm_compute. repeat split; reflexivity. Qed.

(* former F6 (wire/client_conn.go readDownstreamMetadataLoop before 900bd4c; the CFG is kept in
   Model/LockCfg.v): the checker rejects that shape, and here is the path: entry -> range head
   (message received) -> body: RLock -> stream alias subscribed -> source node NOT subscribed:
   `continue` -> range head -> channel closed: exit, with c.downstreams.mu still read-locked and
   no deferred release.  The function as it is now is in all_cfgs and balanced. *)
Theorem c08_F6_former_refuted :
  balanced former_F6_cfg = false /\
  (exists p b nd s, is_path (nodes former_F6_cfg) 0 p = true /\ last p 0 = b /\
    nth_error (nodes former_F6_cfg) b = Some nd /\ succs nd = [] /\
    run_path (locks_of former_F6_cfg) (nodes former_F6_cfg) 0 p
             (zero_vec (locks_of former_F6_cfg), zero_vec (locks_of former_F6_cfg)) = Some s /\
    locks_of former_F6_cfg = [("c.downstreams.mu", R)] /\ s = ([1], [0])) /\
  (exists g, find_cfg "wire.ClientConn.readDownstreamMetadataLoop" all_cfgs = Some g /\ balanced g = true).
Proof.
  split; [vm_compute; reflexivity|]. split.
  - exists [1; 2; 4; 6; 1; 3], 3, (mkNode [] [] true), ([1], [0]).
    vm_compute. repeat split; reflexivity.
  - exists cfg_wire_ClientConn_readDownstreamMetadataLoop. vm_compute. split; reflexivity.
Qed.
Print Assumptions c08_F6_former_refuted.

(* the translator's own dataflow (whose held-sets feed gen-waits and gen-guards) gives the same
   verdict as [balanced] on every generated function *)
Theorem c08_go_dataflow_agrees :
  forallb (fun g => match find (fun v => String.eqb (fst v) (fname g)) go_verdicts with
                    | Some v => Bool.eqb (snd v) (balanced g)
                    | None => false
                    end) all_cfgs = true.
Proof. vm_compute. reflexivity. Qed.
Print Assumptions c08_go_dataflow_agrees.

(* Part C: every blocking statement of the library (generated inventory) is either bounded by
   its own syntactic evidence or is listed in the hand-written protocol table; a blocking
   statement under a lock (other than a cond.Wait under its own mutex) must be listed in
   [lock_waits].  A new bare wait introduced by a change is an unclassified entry. *)
Theorem c08_waits_classified : waits_classified wait_protocols lock_waits waits = true.
Proof. vm_compute. reflexivity. Qed.
Print Assumptions c08_waits_classified.

(* lost wake-ups: no cond.Wait of the library has a cancellation waker that Broadcasts without
   holding a lock, and the waits whose bound rests on wakers (Upstream.Close's ack wait: caller
   context and close timeout; connStatus.waitUntil: caller context) have that many locked ones *)
Theorem c08_cond_wakers :
  forallb (cond_wakers_ok required_wakers) waits = true /\ wakers_table_used required_wakers waits = true.
Proof. vm_compute. split; reflexivity. Qed.
Print Assumptions c08_cond_wakers.

(* the check separates the two forms *)
Example c08_example_wakers :
  cond_wakers_ok required_wakers (mkWait "iscp.Upstream.waitToSendAllDataPointsAndReceiveAllAck" 1%N "cond-wait" "u.receivedAck" [] ["waker-locked"; "waker-locked"]) = true /\
  cond_wakers_ok required_wakers (mkWait "iscp.Upstream.waitToSendAllDataPointsAndReceiveAllAck" 1%N "cond-wait" "u.receivedAck" [] ["waker-bare"; "waker-bare"]) = false /\
  cond_wakers_ok required_wakers (mkWait "iscp.Upstream.waitToSendAllDataPointsAndReceiveAllAck" 1%N "cond-wait" "u.receivedAck" [] ["waker-locked"]) = false /\
  cond_wakers_ok required_wakers (mkWait "x.f" 1%N "cond-wait" "c" [] ["waker-bare"]) = false.
Proof. vm_compute. repeat split; reflexivity. Qed.

(* the caller's context reaches every blocking request: in every function with a context
   parameter, each call of a function that waits for the broker / the flush loop on behalf of an
   API call is handed that parameter or a context derived from it on every preceding assignment -
   never a stored stream / connection context, never a mixture *)
Theorem c08_caller_ctx_alternatives :
  forallb caller_ctx_ok ctx_args = true /\ blocking_callees_used ctx_args = true.
Proof. vm_compute. split; reflexivity. Qed.
Print Assumptions c08_caller_ctx_alternatives.

Example c08_example_caller_ctx :
  caller_ctx_ok (mkCtxArg "iscp.Downstream.closeWithError" 1%N "wire.ClientConn.SendDownstreamCloseRequest" "ctx" "caller") = true /\
  caller_ctx_ok (mkCtxArg "iscp.Downstream.closeWithError" 1%N "wire.ClientConn.SendDownstreamCloseRequest" "reqCtx" "mixed") = false /\
  caller_ctx_ok (mkCtxArg "iscp.Downstream.closeWithError" 1%N "wire.ClientConn.SendDownstreamCloseRequest" "d.ctx" "stored") = false /\
  (30 <=? List.length (filter (fun a => has (ca_callee a) blocking_callees) ctx_args))%nat = true.
Proof. vm_compute. repeat split; reflexivity. Qed.

(* single-send channels: the dispatch loops that hand a response / call ack / reply call to the
   waiting requester through its 1-slot channel delete the requester's registration from the map
   BEFORE the send (so a duplicated message finds no entry and the send never waits) *)
Theorem c08_single_send_channels : single_send_ok waits = true.
Proof. vm_compute. reflexivity. Qed.
Print Assumptions c08_single_send_channels.

(* no stale rows in the hand-written table *)
Theorem c08_wait_table_used : table_used wait_protocols waits = true.
Proof. vm_compute. reflexivity. Qed.

(* the held-sets in the inventory are the ones the Coq dataflow computes from the CFGs *)
Theorem c08_waits_consistent : forallb (wait_consistent all_cfgs) waits = true.
Proof. vm_compute. reflexivity. Qed.
Print Assumptions c08_waits_consistent.

(* C13 support: in transport/quic and transport/webtransport, Transport.Write calls the frame
   writer (length prefix + payload = two io.Writer writes) only with t.sendMu held, is the only
   caller of the frame writer and the only reader of the send stream. *)
Definition write_spans_frame : bool := forallb (frame_ok all_cfgs) frame_facts.
Theorem c08_write_spans_frame : write_spans_frame = true /\ List.length frame_facts = 2.
Proof. vm_compute. split; reflexivity. Qed.
Print Assumptions c08_write_spans_frame.

(* non-vacuity: the generated list is not trivial, and the checker separates the two ways of
   writing a critical section from the two classic mistakes *)
Example c08_example_inventory :
  (100 <=? List.length all_cfgs)%nat = true /\ (100 <=? List.length waits)%nat = true /\
  existsb (fun g => negb (Nat.eqb (List.length (locks_of g)) 0) && (5 <=? List.length (nodes g))%nat) all_cfgs = true.
Proof. vm_compute. repeat split; reflexivity. Qed.

Example c08_example_checker :
  let deferred := mkCfg "f" "x.go" 1%N []
        [mkNode [Acq "mu" W; DeferRel "mu" W] [1; 2] false; mkNode [] [] true; mkNode [] [] true] in
  let explicit := mkCfg "f" "x.go" 1%N []
        [mkNode [Acq "mu" W] [1; 2] false; mkNode [Rel "mu" W] [] true; mkNode [Rel "mu" W] [] true] in
  let early_return := mkCfg "f" "x.go" 1%N []
        [mkNode [Acq "mu" W] [1; 2] false; mkNode [] [] true; mkNode [Rel "mu" W] [] true] in
  let double_unlock := mkCfg "f" "x.go" 1%N []
        [mkNode [Acq "mu" W; DeferRel "mu" W] [1] false; mkNode [Rel "mu" W] [] true] in
  balanced deferred = true /\ balanced explicit = true /\
  balanced early_return = false /\ balanced double_unlock = false.
Proof. vm_compute. repeat split; reflexivity. Qed.
